#!/usr/bin/env python3
"""Rebuild the table of DESIGN.md §10.4 from seeded/*/meta.json and seeded/*/matrix.json."""
import json, os, re, glob
HERE = os.path.dirname(os.path.abspath(__file__))
PROPS = ['C01','C02','C03','C04','C05','C06','C07','C08','C09','C10','C11','C12','C13','C17','C18','C20']

def main():
    rows = []
    stats = {'total': 0, 'any': 0, 'own': 0}
    for d in sorted(glob.glob(os.path.join(HERE, 'seeded', 'C*'))):
        sid = os.path.basename(d)
        meta = json.load(open(os.path.join(d, 'meta.json')))
        res = {k: v['exit'] for k, v in meta.get('checks_run', {}).items()}
        first = {k: (v.get('first_violations') or [''])[0] for k, v in meta.get('checks_run', {}).items()}
        mp = os.path.join(d, 'matrix.json')
        if os.path.exists(mp):
            m = json.load(open(mp))
            for k, v in m['props'].items():
                # a result obtained against the target property's own check wins if the matrix run was disturbed
                if v['exit'] in (0, 1):
                    res.setdefault(k, v['exit'])
                    if k not in first or not first[k]:
                        first[k] = (v.get('violations') or [''])[0]
                    if v['exit'] == 1:
                        res[k] = 1
        caught = [p for p in PROPS if res.get(p) == 1]
        target = meta['breaks_property']
        inv = re.match(r'(\w+) in ([\w ]+?) \(', first.get(target, '') or '')
        how = f"{inv.group(1)} ({inv.group(2)})" if inv else (first.get(target, '')[:40])
        rows.append((sid, meta.get('needs_to_manifest', '')[:110], ', '.join(caught) or '—', how))
        stats['total'] += 1
        stats['any'] += 1 if caught else 0
        stats['own'] += 1 if target in caught else 0
    out = ['| change | needs | caught by the quick check of | how the target property\'s check reports it |', '|---|---|---|---|']
    for r in rows:
        out.append(f'| {r[0]} | {r[1]} | {r[2]} | {r[3]} |')
    table = '\n'.join(out)
    p = os.path.join(HERE, 'DESIGN.md')
    s = open(p).read()
    a = s.index('<!-- MATRIX -->')
    b = s.index('### 10.5 Behaviour-preserving')
    intro = open(os.path.join(HERE, 'matrix_intro.md')).read() if os.path.exists(os.path.join(HERE, 'matrix_intro.md')) else ''
    intro = intro.replace('{N_TOTAL}', str(stats['total'])).replace('{N_ANY}', str(stats['any'])).replace('{N_OWN}', str(stats['own']))
    s = s[:a] + '<!-- MATRIX -->\n' + intro + '\n' + table + '\n\n' + s[b:]
    open(p, 'w').write(s)
    print(table)

if __name__ == '__main__':
    main()
