"""C04: thread-schedule simulation (schedsim, sequentially consistent, seeded schedules over shuttle
continuations) plus the unhooked crate under Miri's seeded scheduler (weak memory, data-race
detector). Both must pass."""
import json, os, re, shutil, subprocess, sys, time, concurrent.futures as cf

MIRI_SEEDS_QUICK = 16
MIRI_SEEDS_THOROUGH = 64
RATES = ['0.05', '0.2', '0.5']


def sched_bin(c):
    return os.path.join(c.TARGET, 'sched' + c.TAG, 'release', 'schedsim')


def build_sched(c):
    crate = os.path.join(c.simroot(), 'schedsim')
    c.ensure_lock(crate)
    env = dict(c.ENV, CARGO_TARGET_DIR=os.path.join(c.TARGET, 'sched' + c.TAG))
    rc, out = c.sh(['cargo', 'build', '--offline', '--quiet', '--release'], cwd=crate, env=env)
    if rc != 0:
        print(out[-6000:])
        c.die(f'building schedsim from {c.SRC} failed')
    return sched_bin(c)


def miri_env(c):
    return dict(c.ENV, MIRI_SYSROOT=os.path.join(c.TARGET, 'miri-sysroot'), CARGO_TARGET_DIR=os.path.join(c.TARGET, 'miri' + c.TAG))


def miri_setup(c, target=None):
    env = miri_env(c)
    marker = os.path.join(env['MIRI_SYSROOT'], 'lib', 'rustlib', target or 'x86_64-unknown-linux-gnu')
    if os.path.isdir(marker):
        return
    cmd = ['cargo', '+nightly', 'miri', 'setup'] + (['--target', target] if target else [])
    rc, out = c.sh(cmd, cwd=os.path.join(c.simroot(), 'mirisim'), env=env)
    if rc != 0:
        print(out[-4000:])
        c.die('cargo miri setup failed')


def miri_run(c, args, flags, target=None, timeout=None):
    """Run mirisim under Miri. Returns (exit code, output)."""
    crate = os.path.join(c.simroot(), 'mirisim')
    c.ensure_lock(crate)
    env = dict(miri_env(c), MIRIFLAGS=' '.join(flags))
    feats = ['--features', 'failhooks'] if args and args[0] == 'big32-fail' else []
    cmd = ['cargo', '+nightly', 'miri', 'run', '--offline', '--quiet'] + feats + (['--target', target] if target else []) + ['--'] + args
    for attempt in (1, 2):
        try:
            p = subprocess.run(cmd, cwd=crate, env=env, stdout=subprocess.PIPE, stderr=subprocess.STDOUT, text=True, timeout=timeout)
        except subprocess.TimeoutExpired as e:
            return 124, (e.stdout or '') + '\n<timeout>'
        # a failure of cargo itself (manifest, lock, build) is a harness error, never a verdict
        if p.returncode != 0 and ('cargo metadata' in p.stdout or 'failed to parse manifest' in p.stdout or 'could not compile' in p.stdout):
            if attempt == 1:
                time.sleep(1.0)
                continue
            print(p.stdout[-3000:])
            c.die('cargo failed while building/running mirisim (harness error)')
        return p.returncode, p.stdout


def setup(c):
    c.gen_shadow()
    build_sched(c)
    miri_setup(c)
    miri_setup(c, 'i686-unknown-linux-gnu')
    # compile mirisim for both targets
    miri_run(c, ['conc', '--from', '0', '--to', '0'], [])
    miri_run(c, ['hist', '--from', '0', '--to', '0'], [], target='i686-unknown-linux-gnu')
    # ... and the hooked variant used by the refused-copy scenario (also runs it once, ~3 s)
    miri_run(c, ['big32-fail'], ['-Zmiri-seed=0'], target='i686-unknown-linux-gnu')


def exhausted(out):
    """The interpreter ran out of (simulated 32-bit) address space or host memory: an environment
    limit of the harness, never a verdict on the code."""
    return 'resource exhaustion' in out or 'memory exhausted' in out


def failing_seeds(out):
    return sorted(set(int(x) for x in re.findall(r'FAILING SEED: (\d+)', out)))


def miri_error_summary(out):
    m = re.search(r'error: (.*)', out)
    return m.group(1)[:300] if m else 'mirisim exited with a non-zero status (value oracle)'


def miri_minimise(c, prog, flags, seeds, want, budget=14):
    """Greedy deletion of operations / threads / holders while Miri still reports an error."""
    def fails(p):
        rc, out = miri_run(c, ['conc-json', json.dumps(p)], flags + [f'-Zmiri-many-seeds={seeds}'], timeout=600)
        return rc != 0 and rc != 124
    def candidates(p):
        for t in range(len(p['threads'])):
            if len(p['threads']) > 1:
                q = json.loads(json.dumps(p)); del q['threads'][t]; yield q
        for t in range(len(p['threads'])):
            for k in range(len(p['threads'][t]['ops'])):
                q = json.loads(json.dumps(p)); del q['threads'][t]['ops'][k]; yield q
        for k in range(len(p['main_ops'])):
            q = json.loads(json.dumps(p)); del q['main_ops'][k]; yield q
        if p['extra_holders'] > 0:
            q = json.loads(json.dumps(p)); q['extra_holders'] -= 1; yield q
    best = prog
    progress = True
    while progress and budget > 0:
        progress = False
        for q in candidates(best):
            if budget <= 0:
                break
            budget -= 1
            if fails(q):
                best = q
                progress = True
                break
    return best


def run_miri_conc(c, tier, t_budget_note):
    thorough = tier == 'thorough'
    n_prog = 600 if thorough else 48
    seeds = MIRI_SEEDS_THOROUGH if thorough else MIRI_SEEDS_QUICK
    per = n_prog // len(RATES)
    stats = {'programs': 0, 'executions': 0, 'batches': []}
    violations = []
    t0 = time.time()
    for b, rate in enumerate(RATES):
        lo, hi = b * per, (b + 1) * per
        # chunks keep a failing run short to re-run; many-seeds uses all cores inside one process
        chunk = 16 if not thorough else 50
        for a in range(lo, hi, chunk):
            z = min(a + chunk, hi)
            flags = [f'-Zmiri-many-seeds=0..{seeds}', f'-Zmiri-preemption-rate={rate}']
            rc, out = miri_run(c, ['conc', '--seed', str(c.SEED), '--from', str(a), '--to', str(z)], flags, timeout=3600)
            stats['programs'] += z - a
            stats['executions'] += (z - a) * seeds
            if rc != 0 and exhausted(out):
                stats['inconclusive_resource_exhaustion'] = stats.get('inconclusive_resource_exhaustion', 0) + 1
                continue
            if rc != 0:
                fs = failing_seeds(out) or [0]
                ms = fs[0]
                # which program? re-run that single Miri seed: one seed is one exact execution
                flags1 = [f'-Zmiri-seed={ms}', f'-Zmiri-preemption-rate={rate}']
                rc1, out1 = miri_run(c, ['conc', '--seed', str(c.SEED), '--from', str(a), '--to', str(z)], flags1, timeout=1800)
                progs = re.findall(r'^PROGRAM (\d+)', out1, re.M)
                idx = int(progs[-1]) if progs else a
                detail = miri_error_summary(out1 if rc1 != 0 else out)
                rcg, pj = c.sh([sched_bin(c), 'gen', '--seed', str(c.SEED), '--index', str(idx)])
                prog = json.loads(pj) if rcg == 0 else None
                minimised = None
                if prog is not None:
                    try:
                        minimised = miri_minimise(c, prog, [f'-Zmiri-preemption-rate={rate}'], f'0..{seeds}', detail)
                    except Exception:
                        minimised = prog
                os.makedirs(c.REPLAYS, exist_ok=True)
                path = os.path.join(c.REPLAYS, f'C04-mirisim-{c.SEED}-{idx}-seed{ms}.json')
                json.dump({'property': 'C04', 'engine': 'mirisim', 'mode': 'conc', 'seed': c.SEED, 'index': idx,
                           'miri_seed': ms, 'miri_seeds': f'0..{seeds}', 'preemption_rate': rate, 'program': prog,
                           'minimised_program': minimised, 'miri_error': detail,
                           'output_tail': (out1 if rc1 != 0 else out)[-3000:]}, open(path, 'w'), indent=1)
                kind = 'data_race' if 'Data race' in detail else ('miri_error' if 'error' in (out1 + out) else 'value_oracle')
                violations.append({'class': f'miri_{kind}|program', 'count': len(fs), 'replay': path,
                                   'violation': {'invariant': f'miri_{kind}', 'op': f'program {idx}', 'target': 'threads',
                                                 'fault': f'miri seed {ms}, preemption rate {rate}', 'detail': detail}})
                return stats, violations, time.time() - t0
        stats['batches'].append({'programs': [lo, hi], 'preemption_rate': rate, 'miri_seeds': f'0..{seeds}'})
    miri_setup(c, 'i686-unknown-linux-gnu')
    if thorough and not violations:
        # the same generator's programs on a 32-bit target (4-byte words, 8-byte inline limit)
        a, z = n_prog, n_prog + 96
        flags = [f'-Zmiri-many-seeds=0..{seeds // 2}', '-Zmiri-preemption-rate=0.2']
        rc, out = miri_run(c, ['conc', '--seed', str(c.SEED), '--from', str(a), '--to', str(z)], flags, target='i686-unknown-linux-gnu', timeout=3 * 3600)
        stats['i686_programs'] = {'programs': [a, z], 'miri_seeds': f'0..{seeds // 2}', 'ok': rc == 0}
        stats['executions'] += (z - a) * (seeds // 2)
        if rc != 0 and exhausted(out):
            stats['i686_programs']['inconclusive'] = 'interpreter resource exhaustion'
        elif rc != 0:
            fs = failing_seeds(out) or [0]
            detail = miri_error_summary(out)
            os.makedirs(c.REPLAYS, exist_ok=True)
            path = os.path.join(c.REPLAYS, f'C04-mirisim-i686-{c.SEED}-{a}-seed{fs[0]}.json')
            json.dump({'property': 'C04', 'engine': 'mirisim', 'mode': 'conc-range', 'seed': c.SEED, 'from': a, 'to': z, 'target': 'i686-unknown-linux-gnu',
                       'miri_seed': fs[0], 'preemption_rate': '0.2', 'miri_error': detail, 'output_tail': out[-3000:]}, open(path, 'w'), indent=1)
            violations.append({'class': 'miri_conc_i686|programs', 'count': len(fs), 'replay': path,
                               'violation': {'invariant': 'miri_conc_i686', 'op': f'programs {a}..{z}', 'target': 'i686-unknown-linux-gnu',
                                             'fault': f'miri seed {fs[0]}', 'detail': detail}})
    # two threads on one > 16 MiB buffer on a 32-bit target (length stored inside the shared block)
    flags = [f'-Zmiri-many-seeds=0..{seeds}', '-Zmiri-preemption-rate=0.2']
    rc, out = miri_run(c, ['big32-conc'], flags, target='i686-unknown-linux-gnu', timeout=3600)
    stats['big32_conc_i686'] = {'miri_seeds': f'0..{seeds}', 'variants': 4, 'ok': rc == 0}
    stats['executions'] += seeds * 4
    if rc != 0 and exhausted(out):
        stats['big32_conc_i686']['inconclusive'] = 'interpreter resource exhaustion'
    elif rc != 0:
        fs = failing_seeds(out) or [0]
        detail = miri_error_summary(out)
        os.makedirs(c.REPLAYS, exist_ok=True)
        path = os.path.join(c.REPLAYS, f'C04-mirisim-big32conc-seed{fs[0]}.json')
        json.dump({'property': 'C04', 'engine': 'mirisim', 'mode': 'big32-conc', 'target': 'i686-unknown-linux-gnu', 'miri_seed': fs[0],
                   'preemption_rate': '0.2', 'miri_error': detail, 'output_tail': out[-3000:]}, open(path, 'w'), indent=1)
        violations.append({'class': 'miri_big32_conc|i686', 'count': len(fs), 'replay': path,
                           'violation': {'invariant': 'miri_big32_conc', 'op': 'two threads on a >16 MiB buffer', 'target': 'i686-unknown-linux-gnu',
                                         'fault': f'miri seed {fs[0]}', 'detail': detail}})
    return stats, violations, time.time() - t0


def run(c, tier):
    t0 = time.time()
    c.gen_shadow()
    b = build_sched(c)
    miri_setup(c)
    outdir = os.path.join(c.OUT, 'C04')
    shutil.rmtree(outdir, ignore_errors=True)
    os.makedirs(outdir, exist_ok=True)
    cmd = [b, 'batch', '--tier', tier, '--seed', str(c.SEED), '--jobs', str(c.JOBS), '--outdir', outdir, '--replay-dir', c.REPLAYS]
    p = subprocess.run(cmd, stdout=subprocess.PIPE, stderr=subprocess.PIPE, text=True)
    if p.returncode not in (0, 1):
        print(p.stdout[-3000:], p.stderr[-3000:])
        c.die(f'schedsim batch failed with exit code {p.returncode}')
    s = json.load(open(os.path.join(outdir, 'summary.json')))
    mstats, mviol, mwall = ({'programs': 0, 'executions': 0, 'batches': []}, [], 0.0)
    if not s['violations'] or os.environ.get('VERIF_C04_ALWAYS_MIRI'):
        mstats, mviol, mwall = run_miri_conc(c, tier, None)
    sums = s['sums']
    summary = {
        'sums': {'evaluations': sums.get('executions', 0) + mstats['executions'], 'steps': sums.get('scheduler_steps', 0),
                 'units': sums.get('programs', 0) + mstats['programs'], 'relevant': s.get('distinct_nontrivial', 0)},
        'distinct_relevant_fingerprints': s.get('distinct_nontrivial', 0),
        'samples': s.get('samples', []),
        'violations': s['violations'] + mviol,
        'class_counts': s.get('class_counts', {}),
        'faults_fired': {'F8_preemptions_by_scheduling_point': s.get('preemptions_by_point', {}),
                         'F1_F2_allocator_null_inside_threads': sums.get('allocator_faults_fired', 0),
                         'programs_with_planned_allocator_faults': sums.get('programs_with_allocator_faults', 0),
                         'F9_programs_with_a_callback_panicking_inside_a_thread': sums.get('programs_with_a_callback_panicking_inside_a_thread', 0)},
    }
    extra = {
        'rule': "Programs: 2-3 parties (main + 1-2 spawned threads) on one buffer, handles moved in / cloned / shared by reference, 1-4 operations each from clone/drop/read/push/push_str/insert/insert_str/remove/pop/retain/truncate/clear/reserve/shrink_to/clone_from; holders on the root buffer biased to exactly 2 (50%). schedsim: each program under seeded random / sticky / PCT-style schedules with a scheduling point at every atomic operation, fence, allocator call and harness read window; oracle = per-thread sequential String model + shadow heap. Non-trivial and distinct: distinct (program, recorded schedule) pairs in which the scheduler preempted a runnable thread at one of those points at least once. Miri executions (weak memory, HB race detector) are counted in evaluations but not in distinct_nontrivial (Miri does not report where it preempted).",
        'schedsim': {'programs': sums.get('programs'), 'executions': sums.get('executions'), 'scheduler_steps': sums.get('scheduler_steps'),
                     'distinct_schedules': sums.get('distinct_schedules'), 'schedules_per_program': s.get('schedules_per_program'),
                     'wall_s': s.get('wall_s'), 'memory_model': 'sequentially consistent (threads serialised on one OS thread)'},
        'mirisim': dict(mstats, wall_s=round(mwall, 1), memory_model='Miri weak-memory emulation (C11 store buffers) + happens-before data-race detector + leak check; nothing stubbed'),
        'components': {'real': ['lean_string (current working tree)', 'itoa', 'ryu', 'castaway', 'core/alloc'],
                       'stubbed (schedsim only)': ['atomics: repr(transparent) wrappers over core atomics that call the scheduler first (crate named loom, via the existing cfg(loom) seam)',
                                                   'allocator: shadow heap via feature verif-hooks', 'threads: shuttle continuations under our SeededScheduler'],
                       'interpreted, nothing stubbed (mirisim)': ['std threads, real atomics, real allocator']},
        'simulated_time': 'not applicable: nothing in the system reads a clock; progress is counted in scheduler steps',
    }
    return c.report('C04', tier, t0, summary, extra)


def run_miri_big32(c, tier='quick'):
    """C03, both tiers: a directed history over strings above the 24-bit length limit, where 32-bit
    targets keep the length in the heap block (a branch no 64-bit run reaches), interpreted by Miri
    on i686 and x86_64."""
    c.gen_shadow()
    stats = {'targets': [], 'wall_s': 0.0}
    violations = []
    t0 = time.time()
    for target in ('i686-unknown-linux-gnu', None):
        miri_setup(c, target)
        for mode in ('big32-min', 'big32'):
            rc, out = miri_run(c, [mode], ['-Zmiri-seed=0'], target=target, timeout=3600)
            tname = target or 'x86_64-unknown-linux-gnu'
            stats['targets'].append({'target': tname, 'scenario': mode, 'ok': rc == 0})
            if rc != 0 and exhausted(out):
                stats['targets'][-1]['inconclusive'] = 'interpreter resource exhaustion'
                continue
            if rc != 0:
                detail = miri_error_summary(out)
                m = re.search(r'VIOLATION-DETAIL (.*)', out)
                if m:
                    detail = m.group(1)[:400]
                os.makedirs(c.REPLAYS, exist_ok=True)
                path = os.path.join(c.REPLAYS, f'C03-mirisim-{mode}-{tname}.json')
                json.dump({'property': 'C03', 'engine': 'mirisim', 'mode': mode, 'target': target, 'miri_seed': 0, 'preemption_rate': '0.01',
                           'miri_error': detail, 'output_tail': out[-3000:]}, open(path, 'w'), indent=1)
                violations.append({'class': f'miri_{mode}|{tname}', 'count': 1, 'replay': path,
                                   'violation': {'invariant': f'miri_{mode}', 'op': 'directed history over >16 MiB strings', 'target': tname,
                                                 'fault': 'none', 'detail': detail}})
                break
    # allocation failure on the 32-bit length-on-heap paths (hooked crate, minimal failing table)
    if not violations:
        crate = os.path.join(c.simroot(), 'mirisim')
        env = dict(miri_env(c), MIRIFLAGS='-Zmiri-seed=0')
        cmd = ['cargo', '+nightly', 'miri', 'run', '--offline', '--quiet', '--features', 'failhooks', '--target', 'i686-unknown-linux-gnu', '--', 'big32-fail']
        p = subprocess.run(cmd, cwd=crate, env=env, stdout=subprocess.PIPE, stderr=subprocess.STDOUT, text=True)
        # in C03's check only what the interpreter itself reports (use after free, leak, ...) counts;
        # the scenario's value-level complaints (error form, unchanged target) are C05's clauses
        value_level = re.search(r'VIOLATION-DETAIL (.*)', p.stdout)
        stats['targets'].append({'target': 'i686-unknown-linux-gnu', 'scenario': 'big32-fail (allocator seam, failing table)',
                                 'ok': p.returncode == 0, 'value_level_complaint_left_to_C05': bool(value_level)})
        if p.returncode != 0 and not value_level and not exhausted(p.stdout):
            detail = miri_error_summary(p.stdout)
            m = None
            if m:
                detail = m.group(1)[:400]
            os.makedirs(c.REPLAYS, exist_ok=True)
            path = os.path.join(c.REPLAYS, 'C03-mirisim-big32-fail-i686.json')
            json.dump({'property': 'C03', 'engine': 'mirisim', 'mode': 'big32-fail', 'target': 'i686-unknown-linux-gnu', 'miri_seed': 0,
                       'preemption_rate': '0.01', 'miri_error': detail, 'output_tail': p.stdout[-3000:]}, open(path, 'w'), indent=1)
            violations.append({'class': 'miri_big32_fail|i686', 'count': 1, 'replay': path,
                               'violation': {'invariant': 'miri_big32_fail', 'op': 'refused copy of a shared >16 MiB buffer', 'target': 'i686-unknown-linux-gnu',
                                             'fault': 'alloc_null', 'detail': detail}})
    # seeded random histories over lengths and capacities straddling the 24-bit limit
    n = 256 if tier == 'thorough' else 32
    steps = 40
    stats['bighist'] = {'target': 'i686-unknown-linux-gnu', 'histories': n, 'steps': steps, 'executed': 0}
    if not violations:
        jobs = max(1, min(c.JOBS // 2, n))
        # one history per interpreter process: the simulated 32-bit address space (4 GiB) is not
        # recycled fast enough for many 17 MB allocations in one process
        chunks = [(k, k + 1) for k in range(n)]
        stats['bighist']['inconclusive_address_space_exhausted'] = 0

        def one(ch):
            a, z = ch
            args = ['bighist', '--seed', str(c.SEED), '--from', str(a), '--to', str(z), '--steps', str(steps)]
            rc, out = miri_run(c, args, ['-Zmiri-seed=0', '-Zmiri-address-reuse-rate=1.0'], target='i686-unknown-linux-gnu', timeout=3 * 3600)
            return ch, rc, out

        with cf.ThreadPoolExecutor(max_workers=jobs) as ex:
            for (a, z), rc, out in ex.map(one, chunks):
                done = re.findall(r'^BIGHIST (\d+)', out, re.M)
                stats['bighist']['executed'] += len(done)
                if rc != 0 and exhausted(out):
                    stats['bighist']['inconclusive_address_space_exhausted'] += 1
                    continue
                if rc != 0:
                    idx = int(done[-1]) if done else a
                    detail = miri_error_summary(out)
                    m = re.search(r'VIOLATION-DETAIL (.*)', out)
                    if m:
                        detail = m.group(1)[:400]
                    os.makedirs(c.REPLAYS, exist_ok=True)
                    path = os.path.join(c.REPLAYS, f'C03-mirisim-bighist-{c.SEED}-{idx}.json')
                    json.dump({'property': 'C03', 'engine': 'mirisim', 'mode': 'bighist', 'seed': c.SEED, 'index': idx, 'steps': steps,
                               'target': 'i686-unknown-linux-gnu', 'miri_seed': 0, 'preemption_rate': '0.01', 'miri_error': detail,
                               'output_tail': out[-3000:]}, open(path, 'w'), indent=1)
                    violations.append({'class': 'miri_bighist|i686', 'count': 1, 'replay': path,
                                       'violation': {'invariant': 'miri_bighist', 'op': f'big history {idx}', 'target': 'i686-unknown-linux-gnu',
                                                     'fault': 'none', 'detail': detail}})
    stats['wall_s'] = round(time.time() - t0, 1)
    return stats, violations


def run_miri_big32_fail(c, prop):
    """C05 (also part of C03's big32 block): refused copies of a shared > 16 MiB buffer on i686."""
    c.gen_shadow()
    miri_setup(c, 'i686-unknown-linux-gnu')
    t0 = time.time()
    rc, out = miri_run(c, ['big32-fail'], ['-Zmiri-seed=0'], target='i686-unknown-linux-gnu', timeout=3600)
    stats = {'target': 'i686-unknown-linux-gnu', 'scenario': 'big32-fail', 'ok': rc == 0, 'wall_s': round(time.time() - t0, 1)}
    violations = []
    if rc != 0 and exhausted(out):
        stats['inconclusive'] = 'interpreter resource exhaustion'
    elif rc != 0:
        detail = miri_error_summary(out)
        m = re.search(r'VIOLATION-DETAIL (.*)', out)
        if m:
            detail = m.group(1)[:400]
        os.makedirs(c.REPLAYS, exist_ok=True)
        path = os.path.join(c.REPLAYS, f'{prop}-mirisim-big32-fail-i686.json')
        json.dump({'property': prop, 'engine': 'mirisim', 'mode': 'big32-fail', 'target': 'i686-unknown-linux-gnu', 'miri_seed': 0,
                   'preemption_rate': '0.01', 'miri_error': detail, 'output_tail': out[-3000:]}, open(path, 'w'), indent=1)
        violations.append({'class': 'miri_big32_fail|i686', 'count': 1, 'replay': path,
                           'violation': {'invariant': 'miri_big32_fail', 'op': 'refused copy of a shared >16 MiB buffer', 'target': 'i686-unknown-linux-gnu',
                                         'fault': 'alloc_null', 'detail': detail}})
    return stats, violations


def replay(c, path, j):
    if j.get('engine') == 'schedsim':
        b = build_sched(c)
        return c.replay_status(subprocess.run([b, 'replay', path]).returncode, j, path)
    if j.get('engine') == 'mirisim':
        miri_setup(c)
        flags = [f"-Zmiri-seed={j['miri_seed']}", f"-Zmiri-preemption-rate={j['preemption_rate']}"]
        if j.get('mode') in ('big32', 'big32-min', 'big32-conc', 'big32-fail'):
            rc, out = miri_run(c, [j['mode']], flags, target=j.get('target'))
        elif j.get('mode') == 'conc-range':
            rc, out = miri_run(c, ['conc', '--seed', str(j['seed']), '--from', str(j['from']), '--to', str(j['to'])], flags, target=j.get('target'))
        elif j.get('mode') == 'bighist':
            rc, out = miri_run(c, ['bighist', '--seed', str(j['seed']), '--from', str(j['index']), '--to', str(j['index'] + 1), '--steps', str(j['steps'])], flags, target=j.get('target'))
        elif j.get('mode') == 'hist':
            args = ['hist', '--seed', str(j['seed']), '--from', str(j['index']), '--to', str(j['index'] + 1), '--prop', j['prop']] + j.get('extra_args', [])
            rc, out = miri_run(c, args, flags, target=j.get('target'))
        else:
            rc, out = miri_run(c, ['conc', '--seed', str(j['seed']), '--from', str(j['index']), '--to', str(j['index'] + 1)], flags)
        print(out[-2500:])
        if rc != 0:
            print(f"VIOLATION property={j['property']} replay={path}")
            return 1
        print('not reproduced: Miri runs the recorded program and seed clean on this tree')
        return 0
    c.die(f'unknown engine in {path}')


def run_miri_hist(c, prop, n_hist, steps, targets=(None, 'i686-unknown-linux-gnu'), faulting_share=4):
    """Thorough tiers of C01/C03/C09/C20: histsim's generator executed by the unhooked crate under
    Miri (out-of-bounds reads, provenance, use after free, leaks) on x86_64 and on i686 (8-byte
    inline limit, 4-byte words). Histories are split over parallel single-seed Miri processes."""
    c.gen_shadow()
    stats = {'histories_per_target': n_hist, 'steps_cap': steps, 'targets': [t or 'x86_64-unknown-linux-gnu' for t in targets], 'executions': 0}
    violations = []
    t0 = time.time()
    for target in targets:
        miri_setup(c, target)
        # make sure the binary is built before fanning out
        miri_run(c, ['hist', '--from', '0', '--to', '0'], [], target=target)
        jobs = max(1, min(c.JOBS, n_hist))
        per = (n_hist + jobs - 1) // jobs
        chunks = [(k * per, min((k + 1) * per, n_hist)) for k in range(jobs) if k * per < n_hist]

        def one(ch):
            a, z = ch
            args = ['hist', '--seed', str(c.SEED), '--from', str(a), '--to', str(z), '--prop', prop, '--steps', str(steps)]
            if a % faulting_share == faulting_share - 1:
                args.append('--faulting')
            rc, out = miri_run(c, args, ['-Zmiri-seed=0'], target=target, timeout=6 * 3600)
            return ch, args, rc, out

        with cf.ThreadPoolExecutor(max_workers=jobs) as ex:
            for (a, z), args, rc, out in ex.map(one, chunks):
                done = re.findall(r'^HISTORY (\d+)', out, re.M)
                stats['executions'] += len(done)
                stats['histories_with_another_propertys_violation'] = stats.get('histories_with_another_propertys_violation', 0) + len(re.findall(r'^OTHER-PROPERTY-VIOLATION', out, re.M))
                if rc != 0 and exhausted(out):
                    stats['inconclusive_resource_exhaustion'] = stats.get('inconclusive_resource_exhaustion', 0) + 1
                    continue
                if rc != 0:
                    idx = int(done[-1]) if done else a
                    detail = miri_error_summary(out)
                    m = re.search(r'VIOLATION-DETAIL (.*)', out)
                    own = False
                    if m:
                        detail = m.group(1)[:400]
                        try:
                            own = prop in json.loads(m.group(1)).get('props', [])
                        except Exception:
                            own = True
                    elif 'OTHER-PROPERTY-VIOLATION' in out:
                        own = False
                    else:
                        # an error raised by the interpreter itself (undefined behaviour, leak): that
                        # is C03's subject (and C20's, which includes C03 in every configuration)
                        own = prop in ('C03', 'C20')
                    if not own:
                        stats.setdefault('chunks_cut_short_by_another_propertys_violation', []).append(
                            {'target': target or 'x86_64-unknown-linux-gnu', 'history': idx, 'what': detail[:200]})
                        continue
                    os.makedirs(c.REPLAYS, exist_ok=True)
                    tname = target or 'x86_64'
                    path = os.path.join(c.REPLAYS, f'{prop}-mirisim-hist-{c.SEED}-{idx}-{tname}.json')
                    json.dump({'property': prop, 'engine': 'mirisim', 'mode': 'hist', 'seed': c.SEED, 'index': idx, 'prop': prop,
                               'target': target, 'miri_seed': 0, 'preemption_rate': '0.01',
                               'extra_args': [x for x in args if x in ('--faulting',)] + ['--steps', str(steps)],
                               'miri_error': detail, 'output_tail': out[-3000:]}, open(path, 'w'), indent=1)
                    violations.append({'class': f'miri_hist|{tname}', 'count': 1, 'replay': path,
                                       'violation': {'invariant': 'miri_hist_error', 'op': f'history {idx}', 'target': tname,
                                                     'fault': 'none', 'detail': detail}})
    stats['wall_s'] = round(time.time() - t0, 1)
    return stats, violations
