//! histsim: single-threaded history simulator with shadow heap and fault injection.
//!
//!   histsim batch  --prop C05 --tier quick --seed N --jobs 16 --outdir DIR --replay-dir DIR [--plan w:n,w:n]
//!   histsim worker --workload W --prop P --seed N --offset K --stride S --limit L --tier T --out FILE --progress FILE
//!   histsim replay FILE
//!
//! Exit codes: 0 held, 1 violation, 2 harness error.

#[path = "../../simcore/mod.rs"]
mod simcore;

use simcore::work::{Agg, Replay, ReplayFile, WorkSpec, Worker};
use std::collections::BTreeMap;
use std::io::Write;
use std::process::{Command, Stdio};
use std::time::{Duration, Instant};

fn arg<'a>(args: &'a [String], name: &str) -> Option<&'a str> {
    args.iter().position(|a| a == name).and_then(|i| args.get(i + 1)).map(|s| s.as_str())
}

fn need<'a>(args: &'a [String], name: &str) -> &'a str {
    arg(args, name).unwrap_or_else(|| {
        eprintln!("histsim: missing {name}");
        std::process::exit(2)
    })
}

/// (workload, number of units) per property and tier. Units are histories, grid cases or sweeps.
fn plan(prop: &str, thorough: bool) -> Vec<(String, u64)> {
    let q = |n: u64, t: u64| if thorough { t } else { n };
    let all = u64::MAX;
    let v: Vec<(&str, u64)> = match prop {
        "C01" => vec![("hist", q(800_000, 6_400_000)), ("histf", q(250_000, 2_000_000))],
        "C02" => vec![("hist", q(800_000, 6_400_000)), ("histf", q(400_000, 3_200_000))],
        "C03" => vec![("hist", q(600_000, 4_800_000)), ("histf", q(500_000, 4_000_000))],
        "C05" => vec![("c05sweep", q(80_000, 640_000)), ("histf", q(500_000, 4_000_000))],
        "C06" => vec![("c06grid", all), ("histf", q(300_000, 1_200_000))],
        "C07" => vec![("c07grid", all), ("histf", q(600_000, 4_800_000))],
        "C08" => vec![("c08grid", all), ("hist", q(800_000, 6_400_000))],
        "C09" => vec![("c09grid", all), ("hist", q(800_000, 6_400_000))],
        "C10" => vec![("hist", q(800_000, 6_400_000)), ("histf", q(300_000, 2_400_000))],
        "C11" => vec![("hist", q(800_000, 6_400_000)), ("histf", q(200_000, 1_600_000))],
        "C12" => vec![("c12loop", all), ("hist", q(800_000, 6_400_000)), ("histf", q(300_000, 2_400_000))],
        "C13" => vec![("c13grid", all), ("hist", q(800_000, 6_400_000)), ("histf", q(300_000, 2_400_000))],
        "C17" => vec![("hist", q(200_000, 1_600_000))],
        "C18" => vec![("c18sweep", q(100_000, 800_000)), ("histf", q(500_000, 4_000_000))],
        "C20" => vec![("c09grid", all), ("hist", q(60_000, 480_000)), ("histf", q(30_000, 240_000))],
        _ => {
            eprintln!("histsim: no plan for property {prop}");
            std::process::exit(2)
        }
    };
    v.into_iter().map(|(a, b)| (a.to_string(), b)).collect()
}

fn silent_panics() {
    // expected, caught panics are part of the workload; HISTSIM_VERBOSE=1 shows them (debugging)
    if std::env::var_os("HISTSIM_VERBOSE").is_none() {
        std::panic::set_hook(Box::new(|_| {}));
    }
}

fn cmd_worker(args: &[String]) -> i32 {
    let spec = WorkSpec {
        workload: need(args, "--workload").to_string(),
        prop: need(args, "--prop").to_string(),
        seed: need(args, "--seed").parse().expect("seed"),
        offset: need(args, "--offset").parse().expect("offset"),
        stride: need(args, "--stride").parse().expect("stride"),
        limit: need(args, "--limit").parse().expect("limit"),
        thorough: need(args, "--tier") == "thorough",
        want_digests: args.iter().any(|a| a == "--digests"),
    };
    let out = need(args, "--out").to_string();
    let progress_path = arg(args, "--progress").map(|s| s.to_string());
    silent_panics();
    simcore::heap::install();
    let mut pf = progress_path.map(|p| std::fs::OpenOptions::new().create(true).write(true).truncate(true).open(p).expect("progress file"));
    let mut progress = |i: u64| {
        if let Some(f) = pf.as_mut() {
            use std::os::unix::fs::FileExt;
            let _ = f.write_at(format!("{i:020}\n").as_bytes(), 0);
        }
    };
    let mut w = Worker::new(&spec);
    w.run(&mut progress);
    let mut fps = std::mem::take(&mut w.agg.fingerprints);
    fps.sort_unstable();
    fps.dedup();
    let mut j = w.agg.to_json();
    j["fingerprint_count"] = serde_json::json!(fps.len());
    let mut bytes = Vec::with_capacity(fps.len() * 8);
    for f in &fps {
        bytes.extend_from_slice(&f.to_le_bytes());
    }
    std::fs::write(format!("{out}.fp"), bytes).expect("write fingerprints");
    std::fs::write(&out, serde_json::to_vec(&j).unwrap()).expect("write worker output");
    0
}

fn merge_sorted_distinct(files: &[String]) -> u64 {
    // k-way merge over sorted u64 files; memory is the files themselves read one at a time into
    // a single sorted vector (sizes are modest: 8 bytes per distinct relevant run)
    let mut all: Vec<u64> = Vec::new();
    for f in files {
        if let Ok(b) = std::fs::read(f) {
            all.extend(b.chunks_exact(8).map(|c| u64::from_le_bytes(c.try_into().unwrap())));
        }
    }
    all.sort_unstable();
    all.dedup();
    all.len() as u64
}

fn add_map(into: &mut BTreeMap<String, u64>, v: &serde_json::Value) {
    if let Some(o) = v.as_object() {
        for (k, x) in o {
            *into.entry(k.clone()).or_insert(0) += x.as_u64().unwrap_or(0);
        }
    }
}

fn cmd_batch(args: &[String]) -> i32 {
    let prop = need(args, "--prop").to_string();
    let tier = arg(args, "--tier").unwrap_or("quick").to_string();
    let seed: u64 = need(args, "--seed").parse().expect("seed");
    let jobs: u64 = arg(args, "--jobs").map(|s| s.parse().expect("jobs")).unwrap_or(16);
    let outdir = need(args, "--outdir").to_string();
    let replay_dir = need(args, "--replay-dir").to_string();
    let digests = args.iter().any(|a| a == "--digests");
    let profile_prop = arg(args, "--as").unwrap_or(&prop).to_string();
    let plan: Vec<(String, u64)> = match arg(args, "--plan") {
        Some(p) => p
            .split(',')
            .map(|x| {
                let (w, n) = x.split_once(':').expect("plan item w:n");
                (w.to_string(), if n == "all" { u64::MAX } else { n.parse().expect("plan count") })
            })
            .collect(),
        None => plan(&profile_prop, tier == "thorough"),
    };
    std::fs::create_dir_all(&outdir).ok();
    std::fs::create_dir_all(&replay_dir).ok();
    let exe = std::env::current_exe().expect("current_exe");
    let t0 = Instant::now();
    let per_worker_timeout = Duration::from_secs(if tier == "thorough" { 3 * 3600 } else { 900 });

    let mut total = serde_json::json!({});
    let mut sums: BTreeMap<String, u64> = BTreeMap::new();
    let mut probes: BTreeMap<String, u64> = BTreeMap::new();
    let mut faults: BTreeMap<String, u64> = BTreeMap::new();
    let mut allocator: BTreeMap<String, u64> = BTreeMap::new();
    let mut class_counts: BTreeMap<String, u64> = BTreeMap::new();
    let mut other_props: BTreeMap<String, u64> = BTreeMap::new();
    let mut found: Vec<serde_json::Value> = Vec::new();
    let mut samples: Vec<serde_json::Value> = Vec::new();
    let mut per_workload: Vec<serde_json::Value> = Vec::new();
    let mut fp_files: Vec<String> = Vec::new();
    let mut all_digests: Vec<(String, u64, u64)> = Vec::new();
    let mut exhaustive_all = true;

    for (wl, limit) in &plan {
        let w0 = Instant::now();
        let mut kids = Vec::new();
        for k in 0..jobs {
            let out = format!("{outdir}/{wl}.{k}.json");
            let prog = format!("{outdir}/{wl}.{k}.progress");
            let _ = std::fs::remove_file(&out);
            let mut c = Command::new(&exe);
            c.args(["worker", "--workload", wl, "--prop", &profile_prop, "--seed", &seed.to_string()])
                .args(["--offset", &k.to_string(), "--stride", &jobs.to_string(), "--limit", &limit.to_string()])
                .args(["--tier", &tier, "--out", &out, "--progress", &prog])
                .stdout(Stdio::null())
                .stderr(Stdio::piped());
            if digests {
                c.arg("--digests");
            }
            let child = c.spawn().expect("spawn worker");
            kids.push((k, child, out, prog));
        }
        let mut wl_sums: BTreeMap<String, u64> = BTreeMap::new();
        let mut wl_exhaustive = false;
        let mut grid_total = 0u64;
        for (k, mut child, out, prog) in kids {
            // wait with a deadline (hang detection)
            let status = loop {
                match child.try_wait() {
                    Ok(Some(s)) => break Some(s),
                    Ok(None) => {
                        if w0.elapsed() > per_worker_timeout {
                            let _ = child.kill();
                            let _ = child.wait();
                            break None;
                        }
                        std::thread::sleep(Duration::from_millis(20));
                    }
                    Err(_) => break None,
                }
            };
            let ok = status.map(|s| s.success()).unwrap_or(false) && std::path::Path::new(&out).exists();
            if !ok {
                // the worker crashed or hung: the index it announced last is the replay
                let idx: u64 = std::fs::read_to_string(&prog).ok().and_then(|s| s.trim().parse().ok()).unwrap_or(k);
                let mut err = String::new();
                if let Some(mut e) = child.stderr.take() {
                    use std::io::Read;
                    let _ = e.read_to_string(&mut err);
                }
                let class = if status.is_none() { "hang" } else { "crash" };
                let rf = ReplayFile {
                    property: prop.clone(),
                    engine: "histsim".into(),
                    workload: wl.clone(),
                    seed,
                    index: idx,
                    violation: simcore::run::Violation {
                        props: vec![prop.clone()],
                        ctx: Vec::new(),
                        invariant: format!("worker_{class}"),
                        step: 0,
                        op: "unknown".into(),
                        target: "unknown".into(),
                        fault: "unknown".into(),
                        detail: format!("worker process {class} ({status:?}) while running index {idx}; stderr tail: {}", err.chars().rev().take(400).collect::<String>().chars().rev().collect::<String>()),
                    },
                    original_steps: 0,
                    replay: Replay::Rerun { workload: wl.clone(), thorough: tier == "thorough" },
                };
                found.push(serde_json::to_value(&rf).unwrap());
                *class_counts.entry(rf.violation.class()).or_insert(0) += 1;
                *sums.entry("violating".into()).or_insert(0) += 1;
                continue;
            }
            let j: serde_json::Value = serde_json::from_slice(&std::fs::read(&out).unwrap()).expect("worker json");
            for key in ["units", "evaluations", "steps", "violating", "cut_short_other", "relevant"] {
                let v = j[key].as_u64().unwrap_or(0);
                *sums.entry(key.into()).or_insert(0) += v;
                *wl_sums.entry(key.into()).or_insert(0) += v;
            }
            add_map(&mut probes, &j["probes"]);
            add_map(&mut faults, &j["faults_fired"]);
            add_map(&mut allocator, &j["allocator"]);
            add_map(&mut class_counts, &j["class_counts"]);
            add_map(&mut other_props, &j["other_props"]);
            if let Some(a) = j["found"].as_array() {
                found.extend(a.iter().cloned());
            }
            if let Some(a) = j["samples"].as_array() {
                if samples.len() < 6 {
                    samples.extend(a.iter().take(1).cloned());
                }
            }
            if let Some(a) = j["digests"].as_array() {
                for d in a {
                    all_digests.push((wl.clone(), d[0].as_u64().unwrap(), d[1].as_u64().unwrap()));
                }
            }
            wl_exhaustive = j["exhaustive"].as_bool().unwrap_or(false);
            grid_total = grid_total.max(j["grid_total"].as_u64().unwrap_or(0));
            fp_files.push(format!("{out}.fp"));
        }
        if !wl_exhaustive {
            exhaustive_all = false;
        }
        per_workload.push(serde_json::json!({
            "workload": wl, "limit": if *limit == u64::MAX { serde_json::json!("all") } else { serde_json::json!(limit) },
            "grid_total": grid_total, "enumerated_completely": wl_exhaustive,
            "units": wl_sums.get("units"), "evaluations": wl_sums.get("evaluations"), "steps": wl_sums.get("steps"),
            "relevant": wl_sums.get("relevant"), "wall_s": w0.elapsed().as_secs_f64(),
        }));
    }

    // de-duplicate findings by class, write replay files
    let mut by_class: BTreeMap<String, serde_json::Value> = BTreeMap::new();
    for f in found {
        let rf: ReplayFile = serde_json::from_value(f.clone()).expect("replay file value");
        let class = rf.violation.class();
        let keep = match by_class.get(&class) {
            None => true,
            Some(old) => {
                let o: ReplayFile = serde_json::from_value(old.clone()).unwrap();
                steps_of(&rf) < steps_of(&o)
            }
        };
        if keep {
            by_class.insert(class, f);
        }
    }
    let mut violations = Vec::new();
    for (class, f) in &by_class {
        let rf: ReplayFile = serde_json::from_value(f.clone()).unwrap();
        let mut h = simcore::rng::Digest::new();
        h.str(class);
        let path = format!("{replay_dir}/{}-histsim-{}-{}-{}-{:08x}.json", prop, rf.workload, rf.seed, rf.index, h.finish() as u32);
        std::fs::write(&path, serde_json::to_vec_pretty(&rf).unwrap()).expect("write replay");
        violations.push(serde_json::json!({
            "class": class, "count": class_counts.get(class), "replay": path, "violation": rf.violation,
            "minimised_steps": steps_of(&rf), "original_steps": rf.original_steps,
        }));
    }
    let distinct = merge_sorted_distinct(&fp_files);
    all_digests.sort();
    let mut dd = simcore::rng::Digest::new();
    for (w, i, d) in &all_digests {
        dd.str(w);
        dd.u64(*i);
        dd.u64(*d);
    }
    total["property"] = serde_json::json!(prop);
    total["tier"] = serde_json::json!(tier);
    total["seed"] = serde_json::json!(seed);
    total["sums"] = serde_json::json!(sums);
    total["distinct_relevant_fingerprints"] = serde_json::json!(distinct);
    total["probes"] = serde_json::json!(probes);
    total["faults_fired"] = serde_json::json!(faults);
    total["allocator"] = serde_json::json!(allocator);
    total["class_counts"] = serde_json::json!(class_counts);
    total["cut_short_by_other_property"] = serde_json::json!(other_props);
    total["violations"] = serde_json::json!(violations);
    total["samples"] = serde_json::json!(samples);
    total["workloads"] = serde_json::json!(per_workload);
    total["all_workloads_enumerated_completely"] = serde_json::json!(exhaustive_all);
    total["wall_s"] = serde_json::json!(t0.elapsed().as_secs_f64());
    if digests {
        let mut txt = String::new();
        for (w, i, d) in &all_digests {
            txt.push_str(&format!("{w} {i} {d:016x}\n"));
        }
        std::fs::write(format!("{outdir}/digests.txt"), txt).expect("write digests");
        total["trace_digest"] = serde_json::json!(format!("{:016x}", dd.finish()));
        total["trace_digest_runs"] = serde_json::json!(all_digests.len());
    }
    let summary = format!("{outdir}/summary.json");
    std::fs::write(&summary, serde_json::to_vec_pretty(&total).unwrap()).expect("write summary");
    println!("{summary}");
    if violations.is_empty() { 0 } else { 1 }
}

fn steps_of(rf: &ReplayFile) -> usize {
    match &rf.replay {
        Replay::Case { case, .. } => case.steps.len(),
        Replay::PushLoop { n, .. } => *n,
        Replay::Rerun { .. } => usize::MAX,
    }
}

fn cmd_replay(args: &[String]) -> i32 {
    let path = args.get(1).cloned().unwrap_or_else(|| {
        eprintln!("histsim replay FILE");
        std::process::exit(2)
    });
    let rf: ReplayFile = match std::fs::read(&path).ok().and_then(|b| serde_json::from_slice(&b).ok()) {
        Some(r) => r,
        None => {
            eprintln!("histsim: cannot read replay file {path}");
            return 2;
        }
    };
    silent_panics();
    simcore::heap::install();
    let got = match &rf.replay {
        Replay::Rerun { workload, thorough } => {
            let spec = WorkSpec {
                workload: workload.clone(),
                prop: rf.property.clone(),
                seed: rf.seed,
                offset: rf.index,
                stride: 1,
                limit: rf.index + 1,
                thorough: *thorough,
                want_digests: false,
            };
            let mut w = Worker::new(&spec);
            w.run(&mut |_| {});
            w.agg.found.first().map(|f| f.violation.clone())
        }
        other => simcore::work::replay(other),
    };
    match got {
        Some(v) if v.invariant == rf.violation.invariant && v.props == rf.violation.props => {
            println!("reproduced: {} at step {} ({}): {}", v.invariant, v.step, v.op, v.detail);
            println!("VIOLATION property={} replay={}", rf.property, path);
            1
        }
        Some(v) => {
            println!("a different violation occurred: {:?}", v);
            println!("VIOLATION property={} replay={}", rf.property, path);
            1
        }
        None => {
            println!("not reproduced: the recorded case runs clean on this tree");
            0
        }
    }
}

/// The oracle's own sensitivity: misuse the allocator seam on purpose and expect each detector to fire.
fn cmd_selfcheck() -> i32 {
    use simcore::heap;
    use std::alloc::Layout;
    silent_panics();
    let mut failed = 0;
    let mut case = |name: &str, want: &str, f: &dyn Fn()| {
        heap::begin_run(Default::default());
        f();
        let (_, v) = heap::end_run();
        let got = v.map(|v| v.kind).unwrap_or("none");
        let ok = got == want;
        println!("{} {name}: expected {want}, shadow heap reported {got}", if ok { "ok  " } else { "FAIL" });
        if !ok {
            failed += 1;
        }
    };
    let l = Layout::from_size_align(40, 8).unwrap();
    unsafe {
        case("clean alloc/realloc/dealloc", "none", &|| {
            let p = heap::with(|h| h.alloc(l));
            let q = heap::with(|h| h.realloc(p, l, 80));
            heap::with(|h| h.dealloc(q, Layout::from_size_align(80, 8).unwrap()));
        });
        case("double free", "double_free", &|| {
            let p = heap::with(|h| h.alloc(l));
            heap::with(|h| h.dealloc(p, l));
            heap::with(|h| h.dealloc(p, l));
        });
        case("free with another size", "layout_mismatch", &|| {
            let p = heap::with(|h| h.alloc(l));
            heap::with(|h| h.dealloc(p, Layout::from_size_align(48, 8).unwrap()));
        });
        case("free with another alignment", "layout_mismatch", &|| {
            let p = heap::with(|h| h.alloc(l));
            heap::with(|h| h.dealloc(p, Layout::from_size_align(40, 16).unwrap()));
        });
        case("free of an interior pointer", "unknown_pointer", &|| {
            let p = heap::with(|h| h.alloc(l));
            heap::with(|h| h.dealloc(p.add(8), l));
        });
        case("realloc after free", "realloc_after_free", &|| {
            let p = heap::with(|h| h.alloc(l));
            heap::with(|h| h.dealloc(p, l));
            heap::with(|h| h.realloc(p, l, 80));
        });
        case("write one byte past the block", "guard_damaged", &|| {
            let p = heap::with(|h| h.alloc(l));
            *p.add(40) = 1;
            heap::with(|h| h.dealloc(p, l));
        });
        case("write one byte before the block", "guard_damaged", &|| {
            let p = heap::with(|h| h.alloc(l));
            *p.sub(1) = 1;
            heap::with(|h| h.dealloc(p, l));
        });
        case("write after free", "write_after_free", &|| {
            let p = heap::with(|h| h.alloc(l));
            heap::with(|h| h.dealloc(p, l));
            *p.add(3) = b'x';
        });
        case("write through the old pointer after a moving realloc", "write_after_free", &|| {
            let p = heap::with(|h| h.alloc(l));
            let q = heap::with(|h| h.realloc(p, l, 80));
            *p = b'x';
            heap::with(|h| h.dealloc(q, Layout::from_size_align(80, 8).unwrap()));
        });
    }
    // a leak is reported by the live-block count
    heap::begin_run(Default::default());
    let _p = unsafe { heap::with(|h| h.alloc(l)) };
    let (live, _) = heap::end_run();
    println!("{} leak: {live} live block(s) at the end of the run", if live == 1 { "ok  " } else { "FAIL" });
    if live != 1 {
        failed += 1;
    }
    if failed == 0 { 0 } else { 1 }
}

fn main() {
    let args: Vec<String> = std::env::args().skip(1).collect();
    let code = match args.first().map(|s| s.as_str()) {
        Some("worker") => cmd_worker(&args),
        Some("batch") => cmd_batch(&args),
        Some("replay") => cmd_replay(&args),
        Some("selfcheck") => cmd_selfcheck(),
        _ => {
            eprintln!("usage: histsim batch|worker|replay ...");
            2
        }
    };
    let _ = std::io::stdout().flush();
    std::process::exit(code);
}

#[allow(dead_code)]
fn _unused(_: Agg) {}
