//! Scheduler-instrumented atomics under the name `loom` (see Cargo.toml).
//!
//! `set_switch` installs the function called before every atomic operation and fence; with none
//! installed the types behave exactly like `core::sync::atomic`.

use core::sync::atomic as real;

static SWITCH: real::AtomicUsize = real::AtomicUsize::new(0);

/// Install (or remove) the scheduling-point callback.
pub fn set_switch(f: Option<fn(&'static str)>) {
    SWITCH.store(f.map(|f| f as usize).unwrap_or(0), real::Ordering::SeqCst);
}

#[inline]
fn point(what: &'static str) {
    let p = SWITCH.load(real::Ordering::Relaxed);
    if p != 0 {
        // SAFETY: only `set_switch` stores here, and it stores a `fn(&'static str)`.
        let f: fn(&'static str) = unsafe { core::mem::transmute(p) };
        f(what);
    }
}

pub mod sync {
    pub mod atomic {
        pub use core::sync::atomic::Ordering;
        use core::sync::atomic as real;

        pub fn fence(order: Ordering) {
            crate::point("fence");
            real::fence(order)
        }

        #[repr(transparent)]
        #[derive(Debug, Default)]
        pub struct AtomicUsize(real::AtomicUsize);

        impl AtomicUsize {
            pub fn new(v: usize) -> Self {
                AtomicUsize(real::AtomicUsize::new(v))
            }
            pub fn load(&self, o: Ordering) -> usize {
                crate::point("load");
                self.0.load(o)
            }
            pub fn store(&self, v: usize, o: Ordering) {
                crate::point("store");
                self.0.store(v, o)
            }
            pub fn swap(&self, v: usize, o: Ordering) -> usize {
                crate::point("swap");
                self.0.swap(v, o)
            }
            pub fn fetch_add(&self, v: usize, o: Ordering) -> usize {
                crate::point("fetch_add");
                self.0.fetch_add(v, o)
            }
            pub fn fetch_sub(&self, v: usize, o: Ordering) -> usize {
                crate::point("fetch_sub");
                self.0.fetch_sub(v, o)
            }
            pub fn fetch_and(&self, v: usize, o: Ordering) -> usize {
                crate::point("fetch_and");
                self.0.fetch_and(v, o)
            }
            pub fn fetch_or(&self, v: usize, o: Ordering) -> usize {
                crate::point("fetch_or");
                self.0.fetch_or(v, o)
            }
            pub fn fetch_xor(&self, v: usize, o: Ordering) -> usize {
                crate::point("fetch_xor");
                self.0.fetch_xor(v, o)
            }
            pub fn fetch_max(&self, v: usize, o: Ordering) -> usize {
                crate::point("fetch_max");
                self.0.fetch_max(v, o)
            }
            pub fn fetch_min(&self, v: usize, o: Ordering) -> usize {
                crate::point("fetch_min");
                self.0.fetch_min(v, o)
            }
            pub fn compare_exchange(&self, c: usize, n: usize, s: Ordering, f: Ordering) -> Result<usize, usize> {
                crate::point("compare_exchange");
                self.0.compare_exchange(c, n, s, f)
            }
            pub fn compare_exchange_weak(&self, c: usize, n: usize, s: Ordering, f: Ordering) -> Result<usize, usize> {
                crate::point("compare_exchange_weak");
                // never fails spuriously here: a spurious failure is a legal behaviour that adds no
                // interleaving the strong form does not have once every operation is a scheduling point
                self.0.compare_exchange(c, n, s, f)
            }
            pub fn fetch_update<F>(&self, s: Ordering, f: Ordering, g: F) -> Result<usize, usize>
            where
                F: FnMut(usize) -> Option<usize>,
            {
                crate::point("fetch_update");
                self.0.fetch_update(s, f, g)
            }
            pub fn get_mut(&mut self) -> &mut usize {
                self.0.get_mut()
            }
            pub fn into_inner(self) -> usize {
                self.0.into_inner()
            }
        }
    }
}
