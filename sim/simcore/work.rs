//! Workloads: what a worker runs for a (property, workload, index range), and what it reports.

use super::exec::Model;
use super::genr::{self, Faults, Gen, GenCfg};
use super::heap;
use super::heapcfg::{Counters, HeapCfg, ReallocPolicy};
use super::ops::*;
use super::rng::{Rng, domain, mix};
use super::run::{Explicit, RunOpts, RunReport, StepSource, Violation, run_case};
use super::scen;
use super::shrink;
use lean_string::LeanString;
use serde::{Deserialize, Serialize};
use std::collections::{BTreeMap, BTreeSet};

#[derive(Clone, Debug, Serialize, Deserialize)]
#[serde(tag = "kind")]
pub enum Replay {
    #[serde(rename = "case")]
    Case {
        case: Case,
        deep_c17: bool,
        /// the property whose check produced this replay (see `RunOpts::own`)
        #[serde(default)]
        own: Option<String>,
    },
    #[serde(rename = "pushloop")]
    PushLoop { start: usize, ch: char, n: usize, heap: HeapCfg },
    /// a worker died or hung while running this index: replay = run that index again
    #[serde(rename = "rerun")]
    Rerun { workload: String, thorough: bool },
}

#[derive(Clone, Debug, Serialize, Deserialize)]
pub struct ReplayFile {
    pub property: String,
    pub engine: String,
    pub workload: String,
    pub seed: u64,
    pub index: u64,
    pub violation: Violation,
    pub original_steps: usize,
    pub replay: Replay,
}

#[derive(Default)]
pub struct Agg {
    pub workload: String,
    pub units: u64,
    pub evaluations: u64,
    pub steps: u64,
    pub violating: u64,
    pub cut_short_other: u64,
    pub other_props: BTreeMap<String, u64>,
    pub found: Vec<ReplayFile>,
    pub class_counts: BTreeMap<String, u64>,
    pub probes: BTreeMap<String, u64>,
    pub counters: Counters,
    pub callback_panics: u64,
    pub bad_index_panics: u64,
    pub lying_hints: u64,
    pub giant_sizes: u64,
    pub relevant: u64,
    pub fingerprints: Vec<u64>,
    pub samples: Vec<serde_json::Value>,
    pub digests: Vec<(u64, u64)>,
    pub exhaustive: bool,
    pub grid_total: u64,
}

pub struct WorkSpec {
    pub workload: String,
    pub prop: String,
    pub seed: u64,
    /// this worker handles indices offset, offset+stride, ... below `limit` (and below the grid size)
    pub offset: u64,
    pub stride: u64,
    pub limit: u64,
    pub thorough: bool,
    pub want_digests: bool,
}

impl WorkSpec {
    fn indices(&self, total: u64) -> impl Iterator<Item = u64> {
        let end = self.limit.min(total);
        (self.offset..end).step_by(self.stride.max(1) as usize)
    }
}

struct GenSource<'a> {
    rng: Rng,
    cfg: &'a GenCfg,
    left: usize,
}

impl StepSource for GenSource<'_> {
    fn next(&mut self, models: &[Option<Model>]) -> Option<Step> {
        if self.left == 0 {
            return None;
        }
        self.left -= 1;
        let mut g = Gen { rng: &mut self.rng, cfg: self.cfg };
        Some(g.step(models))
    }
}

/// Per-property workload profile for random histories.
pub fn profile(prop: &str, faulting: bool) -> (Faults, Vec<(OpFamily, u32)>, bool) {
    use OpFamily::*;
    let mut f = Faults::none();
    let mut deep = false;
    let focus: Vec<(OpFamily, u32)> = match prop {
        "C02" => vec![(CloneLike, 2), (Truncate, 2), (Drop, 2), (Append, 2), (Remove, 2), (Insert, 2), (Retain, 2), (Clear, 2)],
        "C03" => vec![(CloneLike, 2), (Drop, 2), (Reserve, 2), (Shrink, 2), (Truncate, 2), (Collect, 2)],
        "C05" => vec![(CloneLike, 2), (Append, 2), (Reserve, 2), (Insert, 2), (Extend, 2), (Shrink, 2), (Remove, 2), (Retain, 2)],
        "C06" => vec![(Reserve, 4), (ConstructSized, 4), (Shrink, 3), (Extend, 3), (Collect, 3), (CloneLike, 2)],
        "C07" => vec![(Insert, 4), (Remove, 4), (Truncate, 4), (CloneLike, 2)],
        "C08" => vec![(CloneLike, 4), (Drop, 2), (Truncate, 2)],
        "C09" => vec![(Construct, 3), (ToLean, 3), (Pop, 2), (Remove, 2), (Insert, 2), (Append, 2), (Retain, 2)],
        "C10" => vec![(Construct, 3), (CloneLike, 2), (Pop, 3), (Truncate, 3), (Clear, 3), (Append, 2), (Insert, 2)],
        "C11" => vec![(Reserve, 4), (ConstructSized, 3), (Append, 3), (Insert, 3), (Extend, 2), (Write, 2)],
        "C12" => vec![(Append, 4), (Reserve, 3), (Insert, 3), (CloneLike, 2)],
        "C13" => vec![(Shrink, 6), (Reserve, 3), (ConstructSized, 2), (CloneLike, 3), (Truncate, 3), (Pop, 2)],
        "C17" => vec![(Construct, 3), (CloneLike, 2), (Pop, 3), (Truncate, 3), (Reserve, 2), (Shrink, 2), (Remove, 2)],
        "C18" => vec![(Retain, 4), (Extend, 4), (Collect, 4), (ToLean, 3), (Write, 3), (CloneLike, 2)],
        _ => vec![],
    };
    if prop == "C17" {
        deep = true;
    }
    if faulting {
        match prop {
            "C05" => f.alloc_fail_pm = 250,
            "C12" | "C13" => f.alloc_fail_pm = 200,
            "C06" => {
                f.giant_size = true;
                f.lying_hint = true;
            }
            "C07" => f.bad_index = true,
            "C18" => f.callback_panic = true,
            _ => {
                f.alloc_fail_pm = 120;
                f.callback_panic = true;
                f.bad_index = true;
                f.lying_hint = true;
                f.giant_size = true;
            }
        }
    }
    if !heap::HOOKED {
        // without the allocator seam (mirisim) nothing refuses a giant request deterministically:
        // never ask the real allocator for gigabytes, and do not plan failures that cannot fire
        f.giant_size = false;
        f.lying_hint = false;
        f.alloc_fail_pm = 0;
    }
    (f, focus, deep)
}

fn add_counters(a: &mut Counters, b: &Counters) {
    a.alloc += b.alloc;
    a.realloc += b.realloc;
    a.dealloc += b.dealloc;
    a.failed_alloc += b.failed_alloc;
    a.failed_realloc += b.failed_realloc;
    a.refused += b.refused;
    a.realloc_moved += b.realloc_moved;
    a.realloc_inplace += b.realloc_inplace;
    a.bytes_moved += b.bytes_moved;
}

/// Counterfactual replay: the same case with the faults of the violating step removed (planned
/// refusals, callback panic, giant size argument). If the same invariant is still violated at that
/// step, the fault did not cause it.
fn fault_is_causal(case: &Case, v: &Violation, opts: &RunOpts) -> bool {
    let mut c = case.clone();
    if v.step >= c.steps.len() {
        return true;
    }
    c.steps.truncate(v.step + 1);
    c.fail_run_req.clear();
    let st = &mut c.steps[v.step];
    st.fail_req.clear();
    st.op.set_callback_panic_at(None);
    match &mut st.op {
        Op::Reserve { n, .. } | Op::WithCapacity { n, .. } | Op::ShrinkTo { n, .. } => *n = (*n).min(8),
        Op::Extend { hint, .. } | Op::Collect { hint, .. } => *hint = Hint::Honest,
        _ => {}
    }
    let o = RunOpts { own: opts.own.clone(), deep_c17: opts.deep_c17, record_counts: false };
    match shrink::run_explicit(&c, &o).violation {
        Some(v2) => !(v2.step == v.step && v2.invariant == v.invariant),
        None => true,
    }
}

pub struct Worker<'a> {
    pub spec: &'a WorkSpec,
    pub agg: Agg,
    /// report the first violating case as it is (minimising inside an interpreter is too slow)
    pub no_minimise: bool,
    /// cap on the number of steps per generated history
    pub steps_cap: Option<usize>,
    seen_classes: BTreeSet<String>,
    fp_seen: BTreeSet<u64>,
}

impl<'a> Worker<'a> {
    pub fn new(spec: &'a WorkSpec) -> Self {
        let mut agg = Agg::default();
        agg.workload = spec.workload.clone();
        Worker { spec, agg, no_minimise: false, steps_cap: None, seen_classes: BTreeSet::new(), fp_seen: BTreeSet::new() }
    }

    /// Book-keeping for one evaluation. `case` builds the explicit case lazily (for replay).
    fn account(&mut self, index: u64, rep: &RunReport, opts: &RunOpts, case: &dyn Fn() -> Case) {
        let prop = self.spec.prop.as_str();
        self.agg.evaluations += 1;
        self.agg.steps += rep.stats.steps;
        for (k, v) in &rep.stats.probes {
            *self.agg.probes.entry(k.to_string()).or_insert(0) += v;
        }
        add_counters(&mut self.agg.counters, &rep.stats.counters);
        self.agg.callback_panics += rep.stats.callback_panics;
        self.agg.bad_index_panics += rep.stats.bad_index_panics;
        self.agg.lying_hints += rep.stats.lying_hints;
        self.agg.giant_sizes += rep.stats.giant_sizes;
        if rep.stats.is_relevant(prop) {
            self.agg.relevant += 1;
            if self.fp_seen.insert(rep.fingerprint) {
                self.agg.fingerprints.push(rep.fingerprint);
            }
        }
        if self.spec.want_digests {
            self.agg.digests.push((index, rep.digest));
        }
        // samples: actual cases, preferring ones in which the property's own faults fired
        let wants_fault = matches!(prop, "C05" | "C06" | "C18");
        let faulted = rep.stats.counters.faults() > 0 || rep.stats.callback_panics > 0;
        if self.agg.samples.len() < 3 && rep.stats.is_relevant(prop) && rep.violation.is_none() && (faulted || !wants_fault) {
            let c = case();
            let ops: Vec<serde_json::Value> = c.steps.iter().map(|s| serde_json::to_value(s).unwrap_or_default()).collect();
            self.agg.samples.push(serde_json::json!({
                "workload": self.spec.workload, "index": index, "slots": c.slots, "allocator": c.heap,
                "failing_request_ordinals_of_the_run": c.fail_run_req, "steps": ops,
                "faults_fired_in_this_run": rep.stats.counters.faults(), "callback_panics_fired_in_this_run": rep.stats.callback_panics,
            }));
        }
        // a contextual tag (this property's fault merely happened to be present in the step) is
        // kept only if taking the fault away makes the violation disappear
        let mut violation = rep.violation.clone();
        if let Some(v) = violation.as_mut() {
            if v.ctx.iter().any(|p| p == prop) && !fault_is_causal(&case(), v, opts) {
                v.props.retain(|p| p != prop);
            }
        }
        if let Some(v) = &violation {
            if v.has_prop(prop) {
                self.agg.violating += 1;
                let class = v.class();
                *self.agg.class_counts.entry(class.clone()).or_insert(0) += 1;
                if self.seen_classes.insert(class) && self.agg.found.len() < 6 {
                    let c = case();
                    let original_steps = c.steps.len();
                    let (mc, mv) = if self.no_minimise { (c.clone(), v.clone()) } else { shrink::minimise(&c, v, opts) };
                    self.agg.found.push(ReplayFile {
                        property: prop.to_string(),
                        engine: "histsim".into(),
                        workload: self.spec.workload.clone(),
                        seed: self.spec.seed,
                        index,
                        violation: mv,
                        original_steps,
                        replay: Replay::Case { case: mc, deep_c17: opts.deep_c17, own: opts.own.clone() },
                    });
                }
            } else {
                self.agg.cut_short_other += 1;
                for p in &v.props {
                    *self.agg.other_props.entry(p.clone()).or_insert(0) += 1;
                }
            }
        }
    }

    fn run_explicit(&mut self, index: u64, case: &Case, opts: &RunOpts) -> RunReport {
        let rep = shrink::run_explicit(case, opts);
        self.account(index, &rep, opts, &|| case.clone());
        rep
    }

    fn gen_history(&mut self, index: u64, faulting: bool, steps_max: usize, opts: &RunOpts, account: bool) -> (RunReport, Case) {
        let prop = self.spec.prop.clone();
        let (faults, focus, _) = profile(&prop, faulting);
        let mut cfg_rng = Rng::new(mix(self.spec.seed, domain(&format!("cfg:{}:{}", self.spec.workload, prop)), index));
        let (mut cfg, heap_cfg) = genr::swarm(&mut cfg_rng, steps_max, &faults, &focus);
        if prop == "C10" {
            cfg.static_bias = true;
        }
        let ops_rng = Rng::new(mix(self.spec.seed, domain(&format!("ops:{}:{}", self.spec.workload, prop)), index));
        let mut src = GenSource { rng: ops_rng, cfg: &cfg, left: cfg.steps };
        let rep = run_case(cfg.slots, &heap_cfg, &[], &mut src, opts);
        let case = Case { slots: cfg.slots, heap: heap_cfg, steps: rep.executed.clone(), fail_run_req: Vec::new() };
        if account {
            self.account(index, &rep, opts, &|| case.clone());
        }
        (rep, case)
    }

    pub fn run(&mut self, progress: &mut dyn FnMut(u64)) {
        let spec = self.spec;
        let (_, _, deep) = profile(&spec.prop, false);
        let opts = RunOpts { own: Some(spec.prop.clone()), deep_c17: deep, record_counts: false };
        let steps_max = self.steps_cap.unwrap_or(if spec.thorough { 120 } else { 40 });
        match spec.workload.as_str() {
            "hist" | "histf" => {
                let faulting = spec.workload == "histf";
                for i in spec.indices(u64::MAX) {
                    progress(i);
                    self.agg.units += 1;
                    self.gen_history(i, faulting, steps_max, &opts, true);
                }
            }
            "c05sweep" => {
                let ropts = RunOpts { own: Some(spec.prop.clone()), deep_c17: false, record_counts: true };
                for i in spec.indices(u64::MAX) {
                    progress(i);
                    self.agg.units += 1;
                    let (base, case) = self.gen_history(i, false, if spec.thorough { 30 } else { 14 }, &ropts, true);
                    if base.violation.is_some() {
                        continue;
                    }
                    let total: u64 = base.stats.requests_per_step.iter().map(|x| *x as u64).sum();
                    for r in 0..total.min(200) {
                        let mut c = case.clone();
                        c.fail_run_req = vec![r];
                        self.run_explicit(i, &c, &opts);
                    }
                    if total <= if spec.thorough { 20 } else { 12 } {
                        for a in 0..total {
                            for b in (a + 1)..total {
                                let mut c = case.clone();
                                c.fail_run_req = vec![a, b];
                                self.run_explicit(i, &c, &opts);
                            }
                        }
                    }
                }
            }
            "c18sweep" => {
                let ropts = RunOpts { own: Some(spec.prop.clone()), deep_c17: false, record_counts: true };
                for i in spec.indices(u64::MAX) {
                    progress(i);
                    self.agg.units += 1;
                    let case = if i % 2 == 0 {
                        let (base, case) = self.gen_history(i, false, if spec.thorough { 20 } else { 10 }, &ropts, false);
                        if base.violation.is_some() {
                            self.account(i, &base, &opts, &|| case.clone());
                            continue;
                        }
                        case
                    } else {
                        c18_prepared(spec.seed, i)
                    };
                    let base = shrink::run_explicit(&case, &ropts);
                    self.account(i, &base, &opts, &|| case.clone());
                    if base.violation.is_some() {
                        continue;
                    }
                    for (s, k_total) in base.stats.callbacks_per_step.iter().enumerate() {
                        if case.steps[s].op.callback_panic_at().is_some() {
                            continue;
                        }
                        for k in 0..(*k_total as usize).min(64) {
                            let mut c = case.clone();
                            c.steps[s].op.set_callback_panic_at(Some(k));
                            if c.steps[s].op.callback_panic_at() != Some(k) {
                                break; // op has no callback to panic in
                            }
                            self.run_explicit(i, &c, &opts);
                        }
                    }
                }
            }
            "c06grid" => {
                self.agg.grid_total = scen::c06_count() as u64;
                for i in spec.indices(self.agg.grid_total) {
                    progress(i);
                    self.agg.units += 1;
                    let c = scen::c06_case(i as usize).unwrap();
                    self.run_explicit(i, &c, &opts);
                }
                self.agg.exhaustive = true;
            }
            "c07grid" => {
                let g = scen::C07Grid::new();
                self.agg.grid_total = g.count() as u64;
                for i in spec.indices(self.agg.grid_total) {
                    progress(i);
                    self.agg.units += 1;
                    let c = g.case(i as usize).unwrap();
                    self.run_explicit(i, &c, &opts);
                }
                self.agg.exhaustive = true;
            }
            "c08grid" | "c09grid" | "c13grid" => {
                let cases = match spec.workload.as_str() {
                    "c08grid" => scen::c08_cases(),
                    "c09grid" => scen::c09_cases(),
                    _ => scen::c13_cases(),
                };
                self.agg.grid_total = cases.len() as u64;
                for i in spec.indices(self.agg.grid_total) {
                    progress(i);
                    self.agg.units += 1;
                    self.run_explicit(i, &cases[i as usize], &opts);
                }
                self.agg.exhaustive = true;
            }
            "c12loop" => {
                let params = c12_params(spec.thorough);
                self.agg.grid_total = params.len() as u64;
                for i in spec.indices(self.agg.grid_total) {
                    progress(i);
                    self.agg.units += 1;
                    let (start, ch, n, hc) = params[i as usize].clone();
                    self.agg.evaluations += 1;
                    match push_loop(start, ch, n, &hc) {
                        Ok(ls) => {
                            self.agg.relevant += 1;
                            self.agg.steps += n as u64;
                            self.agg.fingerprints.push(mix(start as u64, ch as u64, n as u64));
                            *self.agg.probes.entry("push_loop_growth_events".into()).or_insert(0) += ls.growths;
                            if self.agg.samples.len() < 3 {
                                self.agg.samples.push(serde_json::json!({"workload":"c12loop","start":start,"char":ch.to_string(),"pushes":n,
                                    "allocator_requests":ls.requests,"bytes_moved_by_realloc":ls.bytes_moved,"final_capacity":ls.final_cap}));
                            }
                        }
                        Err(v) => {
                            if v.has_prop(&spec.prop) {
                                self.agg.violating += 1;
                                *self.agg.class_counts.entry(v.class()).or_insert(0) += 1;
                                if self.agg.found.len() < 4 {
                                    self.agg.found.push(ReplayFile {
                                        property: spec.prop.clone(),
                                        engine: "histsim".into(),
                                        workload: "c12loop".into(),
                                        seed: spec.seed,
                                        index: i,
                                        violation: v,
                                        original_steps: n,
                                        replay: Replay::PushLoop { start, ch, n, heap: hc },
                                    });
                                }
                            } else {
                                self.agg.cut_short_other += 1;
                            }
                        }
                    }
                }
                self.agg.exhaustive = true;
            }
            other => panic!("unknown workload {other}"),
        }
    }
}

/// Prepared-state C18 cases: every storage state x every callback-taking operation.
fn c18_prepared(seed: u64, index: u64) -> Case {
    let mut rng = Rng::new(mix(seed, domain("c18prep"), index));
    let u = (index / 2) as usize;
    let state = scen::STATES[u % scen::STATES.len()];
    let kind_i = (u / scen::STATES.len()) % 12;
    let tl = *rng.pick(&[3usize, 9, 15, 16, 20, 33]);
    let text = genr::text_of_len(&mut rng, tl, true);
    let (mut steps, cur) = scen::prep(state, &text, u % super::exec::ARENA_TEXTS);
    let n_items = rng.range(1, 6);
    let items = |rng: &mut Rng, ch: bool| -> Vec<String> {
        (0..n_items)
            .map(|_| if ch { genr::random_char(rng, true).to_string() } else { let n = rng.range(0, 9); genr::text_of_len(rng, n, true) })
            .collect()
    };
    let op = match kind_i {
        0 => Op::Retain { mask: rng.next_u64(), panic_at: None, try_: false },
        1 => Op::Retain { mask: rng.next_u64() | 1, panic_at: None, try_: true },
        2 => Op::Extend { kind: ItemKind::Char, items: items(&mut rng, true), hint: Hint::Honest, panic_at: None },
        3 => Op::Extend { kind: ItemKind::RefChar, items: items(&mut rng, true), hint: Hint::Honest, panic_at: None },
        4 => Op::Extend { kind: ItemKind::Str, items: items(&mut rng, false), hint: Hint::Honest, panic_at: None },
        5 => Op::Extend { kind: ItemKind::String, items: items(&mut rng, false), hint: Hint::Honest, panic_at: None },
        6 => Op::Extend { kind: ItemKind::Lean, items: items(&mut rng, false), hint: Hint::Honest, panic_at: None },
        7 => Op::Extend { kind: ItemKind::Cow, items: items(&mut rng, false), hint: Hint::Honest, panic_at: None },
        8 => Op::Extend { kind: ItemKind::BoxStr, items: items(&mut rng, false), hint: Hint::Honest, panic_at: None },
        9 => Op::Write { pieces: items(&mut rng, false), fail_at: None, panic_at: None },
        10 => Op::Collect { kind: *rng.pick(&ITEM_KINDS), items: { let mut v = items(&mut rng, false); v.push("a text long enough to need the heap".into()); v }, hint: Hint::Honest, panic_at: None },
        _ => Op::ToLean { src: ToLeanSrc::Display { pieces: { let mut v = items(&mut rng, false); v.push("a text long enough to need the heap".into()); v }, fail_at: None, panic_at: None }, try_: rng.chance(1, 2) },
    };
    let _ = cur;
    steps.push(Step::new(0, op));
    steps.extend(scen::epilogue());
    scen::case_of(steps, HeapCfg { limit: 1 << 26, policy: ReallocPolicy::AlwaysMove, slack: 0, rng_seed: index })
}

// ------------------------------------------------------------------------------------------------
// C12: push-one-char loops, executed directly (a step-by-step snapshot would be quadratic)

#[derive(Debug)]
pub struct LoopStats {
    pub requests: u64,
    pub bytes_moved: u64,
    pub growths: u64,
    pub final_cap: usize,
}

pub fn c12_params(thorough: bool) -> Vec<(usize, char, usize, HeapCfg)> {
    let mut v = Vec::new();
    let ns: &[usize] = if thorough {
        &[1, 2, 16, 17, 100, 1000, 4096, 65_536, 262_144, 1_048_576, 4_194_304]
    } else {
        &[1, 2, 16, 17, 100, 1000, 4096, 65_536]
    };
    for start in 0..6 {
        for ch in ['a', 'é', '€', '🦀'] {
            for &n in ns {
                if n > 262_144 && (ch != 'a' || start > 2) {
                    continue;
                }
                for (pi, policy) in [ReallocPolicy::AlwaysMove, ReallocPolicy::InPlaceWhenFits].into_iter().enumerate() {
                    if n > 65_536 && pi == 1 {
                        continue;
                    }
                    v.push((start, ch, n, HeapCfg { limit: 1 << 30, policy, slack: if pi == 1 { 4096 } else { 0 }, rng_seed: 3 }));
                }
            }
        }
    }
    v
}

pub fn push_loop(start: usize, ch: char, n: usize, hc: &HeapCfg) -> Result<LoopStats, Violation> {
    let mk = |props: &[&str], inv: &str, step: usize, detail: String| Violation {
        props: props.iter().map(|s| s.to_string()).collect(),
        ctx: Vec::new(),
        invariant: inv.into(),
        step,
        op: "push".into(),
        target: format!("loop-start-{start}"),
        fault: "none".into(),
        detail,
    };
    heap::begin_run(hc.clone());
    let arena = super::exec::Arena::get();
    let mut keep: Vec<LeanString> = Vec::new();
    let mut s = match start {
        0 => LeanString::new(),
        1 => LeanString::from("0123456789"),
        2 => LeanString::from_static_str(arena.text(8, usize::MAX)),
        3 => {
            let a = LeanString::from("a heap string shared with one other handle");
            keep.push(a.clone());
            a
        }
        4 => LeanString::from("a heap string owned by one handle, exact fit"),
        _ => {
            let mut a = LeanString::from("a heap string shared, then truncated while shared");
            keep.push(a.clone());
            a.truncate(20);
            a
        }
    };
    let start_text = s.as_str().to_string();
    let w = ch.len_utf8();
    let c0 = heap::counters();
    let mut growths = 0u64;
    let mut result = Ok(());
    for i in 0..n {
        let (len0, cap0) = (s.len(), s.capacity());
        let r0 = heap::counters().requests();
        s.push(ch);
        let r1 = heap::counters().requests();
        if r1 != r0 {
            growths += 1;
            let need = len0 + w;
            let lower = len0 + len0 / 2;
            let cap = s.capacity();
            if need > cap0 && s.is_heap_allocated() && (cap < lower || cap > lower.max(need)) {
                result = Err(mk(&["C12"], "growth_bounds", i, format!("push #{i}: len {len0} capacity {cap0} -> capacity {cap}, not in {lower}..={}", lower.max(need))));
                break;
            }
        } else if len0 + w <= cap0 && keep.is_empty() && s.capacity() != cap0 {
            result = Err(mk(&["C11"], "capacity_changed_without_request", i, format!("push #{i}")));
            break;
        }
        if s.len() != len0 + w {
            result = Err(mk(&["C01"], "text_mismatch", i, format!("push #{i}: len {} expected {}", s.len(), len0 + w)));
            break;
        }
    }
    let c1 = heap::counters();
    let requests = c1.requests() - c0.requests();
    let bytes_moved = c1.bytes_moved - c0.bytes_moved;
    let total = start_text.len() + n * w;
    if result.is_ok() {
        let ok_text = s.len() == total && s.as_bytes().starts_with(start_text.as_bytes()) && {
            let mut b = [0u8; 4];
            let e = ch.encode_utf8(&mut b).as_bytes();
            s.as_bytes()[start_text.len()..].chunks(w).all(|c| c == e)
        };
        if !ok_text {
            result = Err(mk(&["C01"], "text_mismatch", n, "contents after the push loop differ from start text + n copies of the char".into()));
        }
    }
    if result.is_ok() {
        // growth by >= 1.5x from at least the inline size: O(log n) requests, O(n) bytes moved
        let mut bound = 3u64;
        let mut c = 16f64;
        while (c as usize) < total {
            c *= 1.5;
            bound += 1;
        }
        if requests > bound {
            result = Err(mk(&["C12"], "too_many_reallocations", n, format!("{n} pushes ({total} bytes) cost {requests} allocator requests, bound {bound}")));
        } else if bytes_moved > 3 * total as u64 + 16 * requests + 64 {
            result = Err(mk(&["C12"], "too_much_copying", n, format!("{n} pushes ({total} bytes) moved {bytes_moved} bytes in realloc")));
        }
    }
    let final_cap = s.capacity();
    drop(s);
    drop(keep);
    let (live, hv) = heap::end_run();
    super::exec::Arena::get().restore();
    result?;
    if let Some(hv) = hv {
        return Err(mk(&["C03"], hv.kind, n, hv.detail));
    }
    if live != 0 {
        return Err(mk(&["C03"], "leaked_block", n, format!("{live} block(s) live after the loop")));
    }
    Ok(LoopStats { requests, bytes_moved, growths, final_cap })
}

pub fn replay(r: &Replay) -> Option<Violation> {
    match r {
        Replay::Case { case, deep_c17, own } => {
            let mut src = Explicit { steps: &case.steps, at: 0 };
            run_case(case.slots, &case.heap, &case.fail_run_req, &mut src, &RunOpts { own: own.clone(), deep_c17: *deep_c17, record_counts: false }).violation
        }
        Replay::PushLoop { start, ch, n, heap } => push_loop(*start, *ch, *n, heap).err(),
        Replay::Rerun { .. } => None,
    }
}

impl Agg {
    pub fn to_json(&self) -> serde_json::Value {
        let c = &self.counters;
        serde_json::json!({
            "workload": self.workload,
            "units": self.units,
            "evaluations": self.evaluations,
            "steps": self.steps,
            "violating": self.violating,
            "cut_short_other": self.cut_short_other,
            "other_props": self.other_props,
            "found": self.found,
            "class_counts": self.class_counts,
            "probes": self.probes,
            "relevant": self.relevant,
            "exhaustive": self.exhaustive,
            "grid_total": self.grid_total,
            "samples": self.samples,
            "digests": self.digests,
            "faults_fired": {
                "F1_alloc_null": c.failed_alloc, "F2_realloc_null": c.failed_realloc, "F3_refused_giant": c.refused,
                "F4_callback_panic": self.callback_panics, "F5_bad_index_panic": self.bad_index_panics,
                "F6_lying_size_hint_ops": self.lying_hints, "F7_realloc_moved": c.realloc_moved, "F7_realloc_in_place": c.realloc_inplace,
                "giant_size_args": self.giant_sizes,
            },
            "allocator": {"alloc": c.alloc, "realloc": c.realloc, "dealloc": c.dealloc, "bytes_moved": c.bytes_moved},
        })
    }
}
