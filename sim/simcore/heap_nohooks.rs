//! Stand-in for the shadow heap in builds without hooks (mirisim: the crate is exactly the
//! shipped one and Miri itself is the memory oracle). Nothing is observed or answered here, so
//! every allocator-counting clause is vacuous and every block-level clause is skipped.

pub use super::heapcfg::{Counters, HeapCfg};

#[derive(Clone, Copy, Debug, PartialEq, Eq)]
pub enum ReqKind {
    Alloc,
    Realloc,
    Dealloc,
}

#[derive(Clone, Copy, Debug)]
pub struct Req {
    pub kind: ReqKind,
    pub size: usize,
    pub ok: bool,
}

#[derive(Clone, Debug)]
pub struct HeapViolation {
    pub kind: &'static str,
    pub detail: String,
}

#[derive(Clone, Copy, Debug)]
pub struct BlockInfo {
    pub id: usize,
    pub live: bool,
    pub user: usize,
    pub size: usize,
}

pub struct Heap;

impl Heap {
    pub fn block_containing(&self, _p: usize) -> Option<BlockInfo> {
        None
    }
    pub fn live_blocks(&self) -> Vec<BlockInfo> {
        Vec::new()
    }
}

pub fn install() {}
pub fn with<R>(f: impl FnOnce(&mut Heap) -> R) -> R {
    f(&mut Heap)
}
pub fn begin_run(_cfg: HeapCfg) {}
pub fn end_run() -> (usize, Option<HeapViolation>) {
    (0, None)
}
pub fn begin_step(_f: &[usize]) {}
pub fn set_fail_run_req(_o: &[u64]) {}
pub fn counters() -> Counters {
    Counters::default()
}
pub fn counters_total() -> u64 {
    0
}
pub fn take_violation() -> Option<HeapViolation> {
    None
}
pub fn step_log() -> Vec<Req> {
    Vec::new()
}
pub fn ref_count(_h: &lean_string::LeanString) -> Option<usize> {
    None
}

pub const HOOKED: bool = false;
pub const COUNTS: bool = false;
