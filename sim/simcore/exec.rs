//! Applying one step to the real `LeanString` pool and to the `String` reference model.

use super::ops::*;
use lean_string::{LeanString, ToLeanString, ToLeanStringError};
use std::borrow::Cow;
use std::cell::Cell;
use std::fmt::{self, Write as _};
use std::panic::{AssertUnwindSafe, catch_unwind};

thread_local! {
    /// number of callback invocations (predicate / iterator `next` / Display piece) in this step
    pub static CALLBACKS: Cell<usize> = const { Cell::new(0) };
    /// did an injected callback panic actually fire in this step (fault kind F4)?
    pub static CALLBACK_PANICS: Cell<usize> = const { Cell::new(0) };
}

fn tick() -> usize {
    CALLBACKS.with(|c| {
        let k = c.get();
        c.set(k + 1);
        k
    })
}

fn injected() -> ! {
    CALLBACK_PANICS.with(|c| c.set(c.get() + 1));
    std::panic::panic_any(INJECTED_PANIC)
}

// ------------------------------------------------------------------------------------------------
// static arena: leaked, *writable* texts so that an illegal write through a borrowed pointer shows
// up as a changed byte instead of a SIGSEGV

pub struct ArenaText {
    pub ptr: *mut u8,
    pub len: usize,
    pub pristine: Vec<u8>,
}

pub struct Arena {
    pub texts: Vec<ArenaText>,
}

unsafe impl Sync for Arena {}
unsafe impl Send for Arena {}

pub const ARENA_TEXTS: usize = 12;

impl Arena {
    fn build() -> Arena {
        let lens = [10usize, 16, 17, 18, 24, 33, 40, 64, 100, 129, 200, 300];
        let mut texts = Vec::new();
        for (a, target) in lens.iter().enumerate() {
            let mut rng = super::rng::Rng::new(0x57A7_1C00 + a as u64);
            let mut s = String::new();
            // tag each text with its index so different arena texts never compare equal
            s.push((b'A' + a as u8) as char);
            while s.len() < *target {
                let c = super::genr::random_char(&mut rng, a % 3 != 0);
                if s.len() + c.len_utf8() <= *target {
                    s.push(c);
                } else {
                    s.push('z');
                }
            }
            let pristine = s.clone().into_bytes();
            let leaked: &'static mut [u8] = Box::leak(s.into_bytes().into_boxed_slice());
            texts.push(ArenaText { ptr: leaked.as_mut_ptr(), len: leaked.len(), pristine });
        }
        Arena { texts }
    }

    pub fn get() -> &'static Arena {
        static A: std::sync::OnceLock<Arena> = std::sync::OnceLock::new();
        A.get_or_init(Arena::build)
    }

    /// `&'static str` over the first `len` bytes (rounded down to a char boundary) of text `a`.
    pub fn text(&self, a: usize, len: usize) -> &'static str {
        let t = &self.texts[a % self.texts.len()];
        let full = std::str::from_utf8(&t.pristine).unwrap();
        let mut l = len.min(t.len);
        while !full.is_char_boundary(l) {
            l -= 1;
        }
        // SAFETY: leaked allocation, never freed; contents equal `pristine` unless the crate
        // under test wrote through it, which is exactly what `check_pristine` reports.
        unsafe { std::str::from_utf8_unchecked(std::slice::from_raw_parts(t.ptr, l)) }
    }

    pub fn model_text(&self, a: usize, len: usize) -> String {
        let t = &self.texts[a % self.texts.len()];
        let full = std::str::from_utf8(&t.pristine).unwrap();
        let mut l = len.min(t.len);
        while !full.is_char_boundary(l) {
            l -= 1;
        }
        full[..l].to_string()
    }

    pub fn check_pristine(&self) -> Option<usize> {
        for (a, t) in self.texts.iter().enumerate() {
            let now = unsafe { std::slice::from_raw_parts(t.ptr, t.len) };
            if now != &t.pristine[..] {
                return Some(a);
            }
        }
        None
    }

    /// Which arena text (if any) contains address `p`.
    pub fn containing(&self, p: usize) -> Option<usize> {
        self.texts.iter().position(|t| p >= t.ptr as usize && p <= t.ptr as usize + t.len)
    }

    /// Undo damage so that later runs in the same process start clean.
    pub fn restore(&self) {
        for t in &self.texts {
            unsafe { std::ptr::copy_nonoverlapping(t.pristine.as_ptr(), t.ptr, t.len) };
        }
    }
}

// ------------------------------------------------------------------------------------------------
// callbacks with injected faults

pub struct FaultyIter<I> {
    inner: I,
    hint: Hint,
    panic_at: Option<usize>,
}

impl<I: Iterator> FaultyIter<I> {
    pub fn new(inner: I, hint: Hint, panic_at: Option<usize>) -> Self {
        FaultyIter { inner, hint, panic_at }
    }
}

impl<I: Iterator> Iterator for FaultyIter<I> {
    type Item = I::Item;
    fn next(&mut self) -> Option<I::Item> {
        let k = tick();
        if Some(k) == self.panic_at {
            injected();
        }
        self.inner.next()
    }
    fn size_hint(&self) -> (usize, Option<usize>) {
        match self.hint {
            Hint::Honest => self.inner.size_hint(),
            Hint::Val(v) => (v, None),
        }
    }
}

pub struct Pieces<'a> {
    pub pieces: &'a [String],
    pub fail_at: Option<usize>,
    pub panic_at: Option<usize>,
}

impl fmt::Display for Pieces<'_> {
    fn fmt(&self, f: &mut fmt::Formatter<'_>) -> fmt::Result {
        for p in self.pieces.iter() {
            let k = tick();
            if Some(k) == self.panic_at {
                injected();
            }
            if Some(k) == self.fail_at {
                return Err(fmt::Error);
            }
            f.write_str(p)?;
        }
        // one more invocation slot after the last piece, so a panic "at the end" is expressible
        let k = tick();
        if Some(k) == self.panic_at {
            injected();
        }
        if Some(k) == self.fail_at {
            return Err(fmt::Error);
        }
        Ok(())
    }
}

fn retain_pred(mask: u64, panic_at: Option<usize>) -> impl FnMut(char) -> bool {
    move |_c| {
        let k = tick();
        if Some(k) == panic_at {
            injected();
        }
        (mask >> (k % 64)) & 1 == 1
    }
}

/// The units an iterator op appends one at a time.
pub fn units(kind: ItemKind, items: &[String]) -> Vec<String> {
    match kind {
        ItemKind::Char | ItemKind::RefChar => items.iter().flat_map(|s| s.chars()).map(|c| c.to_string()).collect(),
        _ => items.to_vec(),
    }
}

// ------------------------------------------------------------------------------------------------
// the real thing

fn pair_mut<T>(v: &mut [T], a: usize, b: usize) -> (&mut T, &mut T) {
    assert!(a != b);
    if a < b {
        let (x, y) = v.split_at_mut(b);
        (&mut x[a], &mut y[0])
    } else {
        let (x, y) = v.split_at_mut(a);
        (&mut y[0], &mut x[b])
    }
}

fn res_unit(r: Result<(), lean_string::ReserveError>) -> Ret {
    match r {
        Ok(()) => Ret::Unit,
        Err(_) => Ret::ErrReserve,
    }
}

fn tl<T: ToLeanString>(v: &T, try_: bool) -> Result<LeanString, Ret> {
    if try_ {
        match v.try_to_lean_string() {
            Ok(s) => Ok(s),
            Err(ToLeanStringError::Reserve(_)) => Err(Ret::ErrReserve),
            Err(ToLeanStringError::Fmt(_)) => Err(Ret::ErrFmt),
        }
    } else {
        Ok(v.to_lean_string())
    }
}

fn nz<T>(v: T, one: T, zero: T) -> T
where
    T: PartialEq + Copy,
{
    if v == zero { one } else { v }
}

fn int_to_lean(ty: IntTy, hi: u64, lo: u64, nonzero: bool, try_: bool) -> Result<LeanString, Ret> {
    use std::num::NonZero;
    let v = ((hi as u128) << 64) | lo as u128;
    macro_rules! go {
        ($t:ty) => {{
            let x = v as $t;
            if nonzero { tl(&NonZero::<$t>::new(nz(x, 1, 0)).unwrap(), try_) } else { tl(&x, try_) }
        }};
    }
    match ty {
        IntTy::I8 => go!(i8),
        IntTy::U8 => go!(u8),
        IntTy::I16 => go!(i16),
        IntTy::U16 => go!(u16),
        IntTy::I32 => go!(i32),
        IntTy::U32 => go!(u32),
        IntTy::I64 => go!(i64),
        IntTy::U64 => go!(u64),
        IntTy::I128 => go!(i128),
        IntTy::U128 => go!(u128),
        IntTy::Isize => go!(isize),
        IntTy::Usize => go!(usize),
    }
}

pub fn int_to_string(ty: IntTy, hi: u64, lo: u64, nonzero: bool) -> String {
    let v = ((hi as u128) << 64) | lo as u128;
    macro_rules! go {
        ($t:ty) => {{
            let x = v as $t;
            if nonzero { nz(x, 1, 0).to_string() } else { x.to_string() }
        }};
    }
    match ty {
        IntTy::I8 => go!(i8),
        IntTy::U8 => go!(u8),
        IntTy::I16 => go!(i16),
        IntTy::U16 => go!(u16),
        IntTy::I32 => go!(i32),
        IntTy::U32 => go!(u32),
        IntTy::I64 => go!(i64),
        IntTy::U64 => go!(u64),
        IntTy::I128 => go!(i128),
        IntTy::U128 => go!(u128),
        IntTy::Isize => go!(isize),
        IntTy::Usize => go!(usize),
    }
}

fn collect_real(kind: ItemKind, items: &[String], hint: Hint, panic_at: Option<usize>) -> LeanString {
    match kind {
        ItemKind::Char => {
            let cs: Vec<char> = items.iter().flat_map(|s| s.chars()).collect();
            FaultyIter::new(cs.into_iter(), hint, panic_at).collect()
        }
        ItemKind::RefChar => {
            let cs: Vec<char> = items.iter().flat_map(|s| s.chars()).collect();
            FaultyIter::new(cs.iter(), hint, panic_at).collect()
        }
        ItemKind::Str => FaultyIter::new(items.iter().map(|s| s.as_str()), hint, panic_at).collect(),
        ItemKind::BoxStr => {
            let v: Vec<Box<str>> = items.iter().map(|s| s.clone().into_boxed_str()).collect();
            FaultyIter::new(v.into_iter(), hint, panic_at).collect()
        }
        ItemKind::Cow => {
            let v: Vec<Cow<'_, str>> = items
                .iter()
                .enumerate()
                .map(|(i, s)| if i % 2 == 0 { Cow::Borrowed(s.as_str()) } else { Cow::Owned(s.clone()) })
                .collect();
            FaultyIter::new(v.into_iter(), hint, panic_at).collect()
        }
        ItemKind::String => FaultyIter::new(items.to_vec().into_iter(), hint, panic_at).collect(),
        ItemKind::Lean => {
            let v: Vec<LeanString> = items.iter().map(|s| LeanString::from(s.as_str())).collect();
            FaultyIter::new(v.into_iter(), hint, panic_at).collect()
        }
    }
}

fn extend_real(t: &mut LeanString, kind: ItemKind, items: &[String], hint: Hint, panic_at: Option<usize>) {
    match kind {
        ItemKind::Char => {
            let cs: Vec<char> = items.iter().flat_map(|s| s.chars()).collect();
            t.extend(FaultyIter::new(cs.into_iter(), hint, panic_at))
        }
        ItemKind::RefChar => {
            let cs: Vec<char> = items.iter().flat_map(|s| s.chars()).collect();
            t.extend(FaultyIter::new(cs.iter(), hint, panic_at))
        }
        ItemKind::Str => t.extend(FaultyIter::new(items.iter().map(|s| s.as_str()), hint, panic_at)),
        ItemKind::BoxStr => {
            let v: Vec<Box<str>> = items.iter().map(|s| s.clone().into_boxed_str()).collect();
            t.extend(FaultyIter::new(v.into_iter(), hint, panic_at))
        }
        ItemKind::Cow => {
            let v: Vec<Cow<'_, str>> = items
                .iter()
                .enumerate()
                .map(|(i, s)| if i % 2 == 0 { Cow::Borrowed(s.as_str()) } else { Cow::Owned(s.clone()) })
                .collect();
            t.extend(FaultyIter::new(v.into_iter(), hint, panic_at))
        }
        ItemKind::String => t.extend(FaultyIter::new(items.to_vec().into_iter(), hint, panic_at)),
        ItemKind::Lean => {
            let v: Vec<LeanString> = items.iter().map(|s| LeanString::from(s.as_str())).collect();
            t.extend(FaultyIter::new(v.into_iter(), hint, panic_at))
        }
    }
}

fn real_inner(slots: &mut [Option<LeanString>], st: &Step) -> Ret {
    let i = st.slot;
    let arena = Arena::get();
    macro_rules! target {
        () => {
            match slots[i].as_mut() {
                Some(t) => t,
                None => return Ret::Skipped,
            }
        };
    }
    macro_rules! set {
        ($v:expr) => {{
            let v: LeanString = $v;
            slots[i] = Some(v);
            Ret::Unit
        }};
    }
    match &st.op {
        Op::New => set!(LeanString::new()),
        Op::FromStr(s) => set!(LeanString::from(s.as_str())),
        Op::FromString(s) => {
            // an owned String usually has spare capacity; vary it deterministically
            let mut owned = String::with_capacity(s.len() + [0usize, 1, 7, 40][s.len() % 4]);
            owned.push_str(s);
            set!(LeanString::from(owned))
        }
        Op::FromRefString(s) => set!(LeanString::from(s)),
        Op::FromBoxStr(s) => {
            let b = s.clone().into_boxed_str();
            set!(LeanString::from(b))
        }
        Op::FromCowBorrowed(s) => set!(LeanString::from(Cow::Borrowed(s.as_str()))),
        Op::FromCowOwned(s) => {
            let mut owned = String::with_capacity(s.len() + [40usize, 0, 1, 7][s.len() % 4]);
            owned.push_str(s);
            let c: Cow<'_, str> = Cow::Owned(owned);
            set!(LeanString::from(c))
        }
        Op::FromChar(c) => set!(LeanString::from(*c)),
        Op::Parse(s) => match s.parse::<LeanString>() {
            Ok(v) => set!(v),
            Err(_) => Ret::ErrReserve,
        },
        Op::FromStatic { arena: a, len } => set!(LeanString::from_static_str(arena.text(*a, *len))),
        Op::WithCapacity { n, try_ } => {
            if *try_ {
                match LeanString::try_with_capacity(*n) {
                    Ok(v) => set!(v),
                    Err(_) => Ret::ErrReserve,
                }
            } else {
                set!(LeanString::with_capacity(*n))
            }
        }
        Op::FromUtf8(b) => match LeanString::from_utf8(b) {
            Ok(v) => set!(v),
            Err(_) => Ret::ErrUtf8,
        },
        Op::FromUtf8Lossy(b) => set!(LeanString::from_utf8_lossy(b)),
        Op::FromUtf16(u) => match LeanString::from_utf16(u) {
            Ok(v) => set!(v),
            Err(_) => Ret::ErrUtf16,
        },
        Op::FromUtf16Lossy(u) => set!(LeanString::from_utf16_lossy(u)),
        Op::Collect { kind, items, hint, panic_at } => set!(collect_real(*kind, items, *hint, *panic_at)),
        Op::ToLean { src, try_ } => {
            let r = match src {
                ToLeanSrc::Int { ty, hi, lo, nonzero } => int_to_lean(*ty, *hi, *lo, *nonzero, *try_),
                ToLeanSrc::Bool(b) => tl(b, *try_),
                ToLeanSrc::Char(c) => tl(c, *try_),
                ToLeanSrc::Str(s) => {
                    let mut owned = String::with_capacity(s.len() + [7usize, 40, 0, 1][s.len() % 4]);
                    owned.push_str(s);
                    tl(&owned, *try_)
                }
                ToLeanSrc::Slot(src) => match slots[*src].as_ref() {
                    Some(s) => tl(s, *try_),
                    None => return Ret::Skipped,
                },
                ToLeanSrc::Display { pieces, fail_at, panic_at } => {
                    tl(&Pieces { pieces, fail_at: *fail_at, panic_at: *panic_at }, *try_)
                }
            };
            match r {
                Ok(v) => set!(v),
                Err(e) => e,
            }
        }
        Op::Clone { src } => match slots[*src].as_ref() {
            Some(s) => {
                let v = s.clone();
                set!(v)
            }
            None => Ret::Skipped,
        },
        Op::FromRef { src } => match slots[*src].as_ref() {
            Some(s) => {
                let v = LeanString::from(s);
                set!(v)
            }
            None => Ret::Skipped,
        },
        Op::CloneFrom { src } => {
            if *src == i || slots[*src].is_none() {
                return Ret::Skipped;
            }
            if slots[i].is_none() {
                let v = slots[*src].as_ref().unwrap().clone();
                return set!(v);
            }
            let (t, s) = pair_mut(slots, i, *src);
            t.as_mut().unwrap().clone_from(s.as_ref().unwrap());
            Ret::Unit
        }
        Op::Take => {
            let t = target!();
            let old = std::mem::take(t);
            drop(old);
            Ret::Unit
        }
        Op::Drop => {
            if slots[i].is_none() {
                return Ret::Skipped;
            }
            slots[i] = None;
            Ret::Unit
        }
        Op::Push { ch, try_ } => {
            let t = target!();
            if *try_ {
                res_unit(t.try_push(*ch))
            } else {
                t.push(*ch);
                Ret::Unit
            }
        }
        Op::PushStr { s, try_ } => {
            let t = target!();
            if *try_ {
                res_unit(t.try_push_str(s))
            } else {
                t.push_str(s);
                Ret::Unit
            }
        }
        Op::Pop { try_ } => {
            let t = target!();
            if *try_ {
                match t.try_pop() {
                    Ok(c) => Ret::Pop(c),
                    Err(_) => Ret::ErrReserve,
                }
            } else {
                Ret::Pop(t.pop())
            }
        }
        Op::Remove { idx, try_ } => {
            let t = target!();
            if *try_ {
                match t.try_remove(*idx) {
                    Ok(c) => Ret::Removed(c),
                    Err(_) => Ret::ErrReserve,
                }
            } else {
                Ret::Removed(t.remove(*idx))
            }
        }
        Op::Insert { idx, ch, try_ } => {
            let t = target!();
            if *try_ {
                res_unit(t.try_insert(*idx, *ch))
            } else {
                t.insert(*idx, *ch);
                Ret::Unit
            }
        }
        Op::InsertStr { idx, s, try_ } => {
            let t = target!();
            if *try_ {
                res_unit(t.try_insert_str(*idx, s))
            } else {
                t.insert_str(*idx, s);
                Ret::Unit
            }
        }
        Op::Truncate { len, try_ } => {
            let t = target!();
            if *try_ {
                res_unit(t.try_truncate(*len))
            } else {
                t.truncate(*len);
                Ret::Unit
            }
        }
        Op::Clear => {
            let t = target!();
            t.clear();
            Ret::Unit
        }
        Op::Retain { mask, panic_at, try_ } => {
            let t = target!();
            if *try_ {
                res_unit(t.try_retain(retain_pred(*mask, *panic_at)))
            } else {
                t.retain(retain_pred(*mask, *panic_at));
                Ret::Unit
            }
        }
        Op::Reserve { n, try_ } => {
            let t = target!();
            if *try_ {
                res_unit(t.try_reserve(*n))
            } else {
                t.reserve(*n);
                Ret::Unit
            }
        }
        Op::ShrinkTo { n, try_ } => {
            let t = target!();
            if *try_ {
                res_unit(t.try_shrink_to(*n))
            } else {
                t.shrink_to(*n);
                Ret::Unit
            }
        }
        Op::ShrinkToFit { try_ } => {
            let t = target!();
            if *try_ {
                res_unit(t.try_shrink_to_fit())
            } else {
                t.shrink_to_fit();
                Ret::Unit
            }
        }
        Op::Extend { kind, items, hint, panic_at } => {
            let t = target!();
            extend_real(t, *kind, items, *hint, *panic_at);
            Ret::Unit
        }
        Op::ExtendSlots { srcs } => {
            if slots[i].is_none() {
                return Ret::Skipped;
            }
            let clones: Vec<LeanString> = srcs.iter().filter_map(|s| slots[*s].as_ref().cloned()).collect();
            let t = slots[i].as_mut().unwrap();
            t.extend(FaultyIter::new(clones.into_iter(), Hint::Honest, None));
            Ret::Unit
        }
        Op::Add(s) => {
            let Some(t) = slots[i].take() else { return Ret::Skipped };
            let r = t + s.as_str();
            slots[i] = Some(r);
            Ret::Unit
        }
        Op::AddAssign(s) => {
            let t = target!();
            *t += s.as_str();
            Ret::Unit
        }
        Op::Write { pieces, fail_at, panic_at } => {
            let t = target!();
            match write!(t, "{}", Pieces { pieces, fail_at: *fail_at, panic_at: *panic_at }) {
                Ok(()) => Ret::Unit,
                Err(_) => Ret::ErrFmt,
            }
        }
    }
}

pub fn apply_real(slots: &mut [Option<LeanString>], st: &Step) -> Outcome {
    CALLBACKS.with(|c| c.set(0));
    CALLBACK_PANICS.with(|c| c.set(0));
    match catch_unwind(AssertUnwindSafe(|| real_inner(slots, st))) {
        Ok(r) => Outcome::Returned(r),
        Err(p) => classify_panic(p),
    }
}

// ------------------------------------------------------------------------------------------------
// the reference model

#[derive(Clone, Debug, PartialEq)]
pub struct Model {
    pub text: String,
    /// `Some(a)`: the handle was born from static arena text `a` and has only been cloned,
    /// popped, truncated or cleared since (C10's pointer clause applies)
    pub static_of: Option<usize>,
    /// ... and that text was longer than the inline limit when the handle was born, so the handle
    /// must keep pointing at the caller's bytes however short it has become since
    pub static_long: bool,
}

impl Model {
    pub fn new(text: String) -> Self {
        Model { text, static_of: None, static_long: false }
    }
}

fn guarded<R>(f: impl FnOnce() -> R) -> Result<R, Outcome> {
    catch_unwind(AssertUnwindSafe(f)).map_err(classify_panic)
}

/// Append `units[..k]` where `k` is the injected panic position (if it is reached).
fn append_units(text: &mut String, units: &[String], panic_at: Option<usize>) -> Outcome {
    match panic_at {
        Some(k) if k <= units.len() => {
            for u in &units[..k] {
                text.push_str(u);
            }
            Outcome::PanicInjected
        }
        _ => {
            for u in units {
                text.push_str(u);
            }
            Outcome::Returned(Ret::Unit)
        }
    }
}

pub fn apply_model(models: &mut [Option<Model>], st: &Step) -> Outcome {
    CALLBACKS.with(|c| c.set(0));
    let i = st.slot;
    let arena = Arena::get();
    let ok = Outcome::Returned(Ret::Unit);
    let skipped = Outcome::Returned(Ret::Skipped);
    macro_rules! set {
        ($s:expr) => {{
            models[i] = Some(Model::new($s));
            ok.clone()
        }};
    }
    macro_rules! target {
        () => {
            match models[i].as_mut() {
                Some(t) => t,
                None => return skipped,
            }
        };
    }
    // every mutator except the static-preserving ones forgets the static origin
    let keeps_static =
        matches!(st.op, Op::Pop { .. } | Op::Truncate { .. } | Op::Clear | Op::Clone { .. } | Op::FromRef { .. })
            || matches!(st.op, Op::CloneFrom { .. } | Op::ToLean { src: ToLeanSrc::Slot(_), .. } | Op::FromStatic { .. });
    let out = match &st.op {
        Op::New => set!(String::new()),
        Op::FromStr(s)
        | Op::FromString(s)
        | Op::FromRefString(s)
        | Op::FromBoxStr(s)
        | Op::FromCowBorrowed(s)
        | Op::FromCowOwned(s)
        | Op::Parse(s) => set!(s.clone()),
        Op::FromChar(c) => set!(c.to_string()),
        Op::FromStatic { arena: a, len } => {
            let t = arena.model_text(*a, *len);
            let long = t.len() > super::genr::INLINE;
            models[i] = Some(Model { text: t, static_of: Some(*a % ARENA_TEXTS), static_long: long });
            ok.clone()
        }
        Op::WithCapacity { .. } => set!(String::new()),
        Op::FromUtf8(b) => match String::from_utf8(b.clone()) {
            Ok(s) => set!(s),
            Err(_) => Outcome::Returned(Ret::ErrUtf8),
        },
        Op::FromUtf8Lossy(b) => set!(String::from_utf8_lossy(b).into_owned()),
        Op::FromUtf16(u) => match String::from_utf16(u) {
            Ok(s) => set!(s),
            Err(_) => Outcome::Returned(Ret::ErrUtf16),
        },
        Op::FromUtf16Lossy(u) => set!(String::from_utf16_lossy(u)),
        Op::Collect { kind, items, panic_at, .. } => {
            let mut s = String::new();
            match append_units(&mut s, &units(*kind, items), *panic_at) {
                Outcome::Returned(_) => set!(s),
                other => other,
            }
        }
        Op::ToLean { src, try_ } => match src {
            ToLeanSrc::Int { ty, hi, lo, nonzero } => set!(int_to_string(*ty, *hi, *lo, *nonzero)),
            ToLeanSrc::Bool(b) => set!(b.to_string()),
            ToLeanSrc::Char(c) => set!(c.to_string()),
            ToLeanSrc::Str(s) => set!(s.clone()),
            ToLeanSrc::Slot(src) => match models[*src].clone() {
                Some(m) => {
                    models[i] = Some(m);
                    ok.clone()
                }
                None => skipped.clone(),
            },
            ToLeanSrc::Display { pieces, fail_at, panic_at } => {
                let mut s = String::new();
                let d = Pieces { pieces, fail_at: *fail_at, panic_at: *panic_at };
                match guarded(|| write!(s, "{}", d)) {
                    Ok(Ok(())) => set!(s),
                    Ok(Err(_)) => {
                        if *try_ {
                            Outcome::Returned(Ret::ErrFmt)
                        } else {
                            Outcome::PanicOther("fmt error".into())
                        }
                    }
                    Err(o) => o,
                }
            }
        },
        Op::Clone { src } | Op::FromRef { src } => match models[*src].clone() {
            Some(m) => {
                models[i] = Some(m);
                ok.clone()
            }
            None => skipped.clone(),
        },
        Op::CloneFrom { src } => {
            if *src == i || models[*src].is_none() {
                return skipped;
            }
            models[i] = models[*src].clone();
            ok.clone()
        }
        Op::Take => {
            let t = target!();
            *t = Model::new(String::new());
            ok.clone()
        }
        Op::Drop => {
            if models[i].is_none() {
                return skipped;
            }
            models[i] = None;
            ok.clone()
        }
        Op::Push { ch, .. } => {
            target!().text.push(*ch);
            ok.clone()
        }
        Op::PushStr { s, .. } | Op::AddAssign(s) | Op::Add(s) => {
            target!().text.push_str(s);
            ok.clone()
        }
        Op::Pop { .. } => Outcome::Returned(Ret::Pop(target!().text.pop())),
        Op::Remove { idx, .. } => {
            let t = target!();
            match guarded(|| t.text.remove(*idx)) {
                Ok(c) => Outcome::Returned(Ret::Removed(c)),
                Err(_) => Outcome::PanicOther("index".into()),
            }
        }
        Op::Insert { idx, ch, .. } => {
            let t = target!();
            match guarded(|| t.text.insert(*idx, *ch)) {
                Ok(()) => ok.clone(),
                Err(_) => Outcome::PanicOther("index".into()),
            }
        }
        Op::InsertStr { idx, s, .. } => {
            let t = target!();
            match guarded(|| t.text.insert_str(*idx, s)) {
                Ok(()) => ok.clone(),
                Err(_) => Outcome::PanicOther("index".into()),
            }
        }
        Op::Truncate { len, .. } => {
            let t = target!();
            match guarded(|| t.text.truncate(*len)) {
                Ok(()) => ok.clone(),
                Err(_) => Outcome::PanicOther("index".into()),
            }
        }
        Op::Clear => {
            target!().text.clear();
            ok.clone()
        }
        Op::Retain { mask, panic_at, .. } => {
            let t = target!();
            match guarded(|| t.text.retain(retain_pred(*mask, *panic_at))) {
                Ok(()) => ok.clone(),
                Err(o) => o,
            }
        }
        Op::Reserve { .. } | Op::ShrinkTo { .. } | Op::ShrinkToFit { .. } => {
            let _ = target!();
            ok.clone()
        }
        Op::Extend { kind, items, panic_at, .. } => {
            let t = target!();
            append_units(&mut t.text, &units(*kind, items), *panic_at)
        }
        Op::ExtendSlots { srcs } => {
            if models[i].is_none() {
                return skipped;
            }
            let us: Vec<String> = srcs.iter().filter_map(|s| models[*s].as_ref().map(|m| m.text.clone())).collect();
            append_units(&mut models[i].as_mut().unwrap().text, &us, None)
        }
        Op::Write { pieces, fail_at, panic_at } => {
            let t = target!();
            let d = Pieces { pieces, fail_at: *fail_at, panic_at: *panic_at };
            match guarded(|| write!(t.text, "{}", d)) {
                Ok(Ok(())) => ok.clone(),
                Ok(Err(_)) => Outcome::Returned(Ret::ErrFmt),
                Err(o) => o,
            }
        }
    };
    if !keeps_static {
        if let Some(m) = models[i].as_mut() {
            m.static_of = None;
            m.static_long = false;
        }
    }
    out
}
