//! Small concurrent programs over handles to one shared buffer (C04): DSL, seeded generator and
//! interpreter. The interpreter runs on shuttle continuations (schedsim, feature `sched`) or on
//! real `std::thread`s (mirisim under Miri's seeded scheduler). Each thread's expected values come
//! from its own sequential `String` model, so the oracle is independent of the schedule.

use super::exec::Arena;
use super::genr::{INLINE, random_char, text_of_len};
use super::heap;
use super::rng::{Digest, Rng};
use super::yieldp;
use lean_string::LeanString;
use serde::{Deserialize, Serialize};
use std::panic::{AssertUnwindSafe, catch_unwind};
use std::sync::{Arc, Mutex};

#[cfg(feature = "sched")]
use shuttle::thread;
#[cfg(not(feature = "sched"))]
use std::thread;

#[derive(Clone, Debug, PartialEq, Serialize, Deserialize)]
pub enum Init {
    Inline,
    Static { arena: usize },
    HeapExact,
    HeapSlack { cap: usize },
}

#[derive(Clone, Debug, PartialEq, Serialize, Deserialize)]
pub enum TOp {
    Clone { src: usize },
    CloneShared,
    ReadShared,
    Drop { i: usize },
    Read { i: usize },
    Push { i: usize, ch: char, try_: bool },
    PushStr { i: usize, s: String, try_: bool },
    Insert { i: usize, idx: usize, ch: char },
    InsertStr { i: usize, idx: usize, s: String },
    Remove { i: usize, idx: usize },
    Pop { i: usize },
    Retain { i: usize, mask: u64 },
    /// `retain` whose predicate panics at its `at`-th call: the thread unwinds out of the middle of
    /// an in-place edit (fault kind F9) while the other owners keep running
    RetainPanic { i: usize, mask: u64, at: usize },
    /// `extend` with chars from an iterator that panics at its `at`-th `next`
    ExtendPanic { i: usize, chars: String, at: usize },
    Truncate { i: usize, len: usize },
    Clear { i: usize },
    Reserve { i: usize, n: usize, try_: bool },
    ShrinkTo { i: usize, n: usize },
    ShrinkToFit { i: usize },
    CloneFrom { dst: usize, src: usize },
}

impl TOp {
    pub fn name(&self) -> &'static str {
        match self {
            TOp::Clone { .. } => "clone",
            TOp::CloneShared => "clone_shared_ref",
            TOp::ReadShared => "read_shared_ref",
            TOp::Drop { .. } => "drop",
            TOp::Read { .. } => "read",
            TOp::Push { .. } => "push",
            TOp::PushStr { .. } => "push_str",
            TOp::Insert { .. } => "insert",
            TOp::InsertStr { .. } => "insert_str",
            TOp::Remove { .. } => "remove",
            TOp::Pop { .. } => "pop",
            TOp::Retain { .. } => "retain",
            TOp::RetainPanic { .. } => "retain_panicking",
            TOp::ExtendPanic { .. } => "extend_panicking",
            TOp::Truncate { .. } => "truncate",
            TOp::Clear { .. } => "clear",
            TOp::Reserve { .. } => "reserve",
            TOp::ShrinkTo { .. } => "shrink_to",
            TOp::ShrinkToFit { .. } => "shrink_to_fit",
            TOp::CloneFrom { .. } => "clone_from",
        }
    }
}

#[derive(Clone, Debug, PartialEq, Serialize, Deserialize)]
pub struct ThreadProg {
    /// the thread makes its handle itself by cloning through the shared `&LeanString`
    pub from_shared: bool,
    /// main truncates the thread's clone before moving it in (handles of different lengths on one buffer)
    pub pre_truncate: Option<usize>,
    pub ops: Vec<TOp>,
}

#[derive(Clone, Debug, PartialEq, Serialize, Deserialize)]
pub struct Program {
    pub text: String,
    pub init: Init,
    /// additional clones of the root held by main (its locals 1..)
    pub extra_holders: usize,
    /// an `Arc<LeanString>` is shared by reference between all threads (the `Sync` clause)
    pub shared_ref: bool,
    /// the handle shared by reference is the *only* handle of its buffer when the threads start
    /// (reference count exactly 1): every party makes its own handle by cloning through `&`
    #[serde(default)]
    pub shared_only: bool,
    pub threads: Vec<ThreadProg>,
    pub main_ops: Vec<TOp>,
    /// global ordinals of alloc/realloc requests that return null (schedsim only)
    #[serde(default, skip_serializing_if = "Vec::is_empty")]
    pub fail_req: Vec<u64>,
}

#[derive(Clone, Debug, PartialEq, Serialize, Deserialize)]
pub struct ConcViolation {
    pub invariant: String,
    pub thread: usize,
    pub op_index: usize,
    pub op: String,
    pub detail: String,
}

impl ConcViolation {
    pub fn class(&self) -> String {
        format!("{}|{}", self.invariant, self.op)
    }
}

static VIOLATION: Mutex<Option<ConcViolation>> = Mutex::new(None);
static FAILURES_SEEN: Mutex<u64> = Mutex::new(0);

pub fn violation() -> Option<ConcViolation> {
    VIOLATION.lock().unwrap_or_else(|e| e.into_inner()).clone()
}

fn report(v: ConcViolation) {
    let mut g = VIOLATION.lock().unwrap_or_else(|e| e.into_inner());
    if g.is_none() {
        *g = Some(v);
    }
}

pub fn report_external(v: ConcViolation) {
    report(v)
}

pub fn reset_violation() {
    *VIOLATION.lock().unwrap_or_else(|e| e.into_inner()) = None;
    *FAILURES_SEEN.lock().unwrap_or_else(|e| e.into_inner()) = 0;
}

// ------------------------------------------------------------------------------------------------
// generator

const ALPHA: [&[char]; 4] = [
    &['a', 'b', 'c', 'd', 'é', 'ß', '€'],
    &['A', 'B', 'C', 'D', 'Ω', 'Ж', '世'],
    &['0', '1', '2', '3', 'ñ', 'あ', '🦀'],
    &['w', 'x', 'y', 'z', 'ж', '界', '😀'],
];

fn party_char(rng: &mut Rng, party: usize) -> char {
    *rng.pick(ALPHA[party % 4])
}

fn party_text(rng: &mut Rng, party: usize, n: usize) -> String {
    (0..n).map(|_| party_char(rng, party)).collect()
}

fn boundary(rng: &mut Rng, text: &str, allow_end: bool) -> usize {
    let mut b: Vec<usize> = text.char_indices().map(|x| x.0).collect();
    if allow_end || b.is_empty() {
        b.push(text.len());
    }
    b[rng.below(b.len())]
}

struct ThreadGen<'a> {
    rng: &'a mut Rng,
    party: usize,
    models: Vec<Option<String>>,
    has_shared: bool,
    shared_text: &'a str,
    faults: bool,
}

impl ThreadGen<'_> {
    fn live(&self) -> Vec<usize> {
        (0..self.models.len()).filter(|i| self.models[*i].is_some()).collect()
    }

    fn op(&mut self) -> TOp {
        let live = self.live();
        if live.is_empty() {
            if self.has_shared {
                self.models.push(Some(self.shared_text.to_string()));
                return TOp::CloneShared;
            }
            return TOp::ReadShared; // no-op without a shared ref
        }
        let i = live[self.rng.below(live.len())];
        let text = self.models[i].clone().unwrap();
        let try_ = self.faults && self.rng.chance(1, 2);
        let p = self.party;
        let r = self.rng.below(100);
        let op = match r {
            0..=13 => TOp::Push { i, ch: party_char(self.rng, p), try_ },
            14..=21 => {
                let n = *self.rng.pick(&[1usize, 2, 3, 8, 20]);
                TOp::PushStr { i, s: party_text(self.rng, p, n), try_ }
            }
            22..=28 => TOp::Insert { i, idx: boundary(self.rng, &text, true), ch: party_char(self.rng, p) },
            29..=32 => {
                let n = self.rng.range(1, 4);
                TOp::InsertStr { i, idx: boundary(self.rng, &text, true), s: party_text(self.rng, p, n) }
            }
            33..=39 if !text.is_empty() => TOp::Remove { i, idx: boundary(self.rng, &text, false) },
            40..=43 => TOp::Pop { i },
            44..=46 => TOp::Retain { i, mask: self.rng.next_u64() | 1 },
            47 => TOp::RetainPanic { i, mask: self.rng.next_u64() | 1, at: self.rng.below(text.chars().count() + 1) },
            48 => {
                let n = self.rng.range(1, 5);
                TOp::ExtendPanic { i, chars: party_text(self.rng, p, n), at: self.rng.below(n + 1) }
            }
            49..=55 => TOp::Truncate { i, len: boundary(self.rng, &text, true) },
            56..=58 => TOp::Clear { i },
            59..=64 => TOp::Reserve { i, n: *self.rng.pick(&[0usize, 1, 5, 30, 100]), try_ },
            65..=68 => TOp::ShrinkTo { i, n: *self.rng.pick(&[0usize, 10, 17, 40]) },
            69..=70 => TOp::ShrinkToFit { i },
            71..=78 => TOp::Clone { src: i },
            79..=86 => TOp::Drop { i },
            87..=92 => TOp::Read { i },
            93..=95 if live.len() >= 2 => {
                let j = live[self.rng.below(live.len())];
                if j == i { TOp::Read { i } } else { TOp::CloneFrom { dst: i, src: j } }
            }
            96..=97 if self.has_shared => TOp::CloneShared,
            98..=99 if self.has_shared => TOp::ReadShared,
            _ => TOp::Push { i, ch: party_char(self.rng, p), try_ },
        };
        apply_model(&mut self.models, &op, self.shared_text);
        op
    }
}

/// Program number `index` of the run with seed `seed`.
pub fn gen_program(seed: u64, index: u64, faults: bool) -> Program {
    gen_program_sized(seed, index, faults, false)
}

/// `long`: up to 3 spawned threads and up to 8 operations per party (thorough tier).
pub fn gen_program_sized(seed: u64, index: u64, faults: bool, long: bool) -> Program {
    let mut rng = Rng::new(super::rng::mix(seed, super::rng::domain("conc-program"), index));
    let rng = &mut rng;
    let init = match rng.below(10) {
        0 => Init::Inline,
        1 | 2 => Init::Static { arena: rng.below(super::exec::ARENA_TEXTS) },
        3..=6 => Init::HeapExact,
        _ => Init::HeapSlack { cap: *rng.pick(&[24usize, 40, 64, 200]) },
    };
    let text = match &init {
        Init::Inline => {
            let n = rng.range(0, INLINE);
            text_of_len(rng, n, true)
        }
        Init::Static { arena } => Arena::get().model_text(*arena, usize::MAX),
        _ => {
            let n = *rng.pick(&[17usize, 18, 20, 24, 33, 40]);
            let mixed = rng.chance(1, 2);
            text_of_len(rng, n, mixed)
        }
    };
    let n_threads = if long { rng.range(1, 3) } else if rng.chance(2, 3) { 1 } else { 2 };
    // number of handles on the root buffer when the threads start: 2 (50%), 3 (30%), 4+ (20%)
    let holders = match rng.below(10) {
        0..=4 => 2,
        5..=7 => 3,
        _ => 4 + rng.below(2),
    };
    let shared_only = rng.chance(1, 8);
    let shared_ref = shared_only || rng.chance(1, 4);
    // main's root + one per thread (+1 for the Arc) + extras = holders (at least)
    let base = 1 + n_threads + shared_ref as usize;
    let extra_holders = if shared_only { 0 } else { holders.max(base) - base };
    let mut threads = Vec::new();
    for t in 0..n_threads {
        let from_shared = shared_only || (shared_ref && rng.chance(1, 3));
        let pre_truncate = if !from_shared && rng.chance(1, 4) { Some(boundary(rng, &text, true)) } else { None };
        let start = match pre_truncate {
            Some(n) => text[..n].to_string(),
            None => text.clone(),
        };
        let n_ops = if long { rng.range(2, 8) } else { rng.range(1, 4) };
        let mut g = ThreadGen { rng, party: t + 1, models: vec![Some(start)], has_shared: shared_ref, shared_text: &text, faults };
        let ops = (0..n_ops).map(|_| g.op()).collect();
        threads.push(ThreadProg { from_shared, pre_truncate, ops });
    }
    // main: root in local 0, extras behind it; biased to dropping what it holds (so that exactly
    // the spawned threads own the buffer) or mutating its own handle
    let mut models: Vec<Option<String>> = if shared_only { Vec::new() } else { (0..1 + extra_holders).map(|_| Some(text.clone())).collect() };
    let mut main_ops = Vec::new();
    let n_main = if long { rng.range(0, 8) } else { rng.range(0, 4) };
    {
        let mut g = ThreadGen { rng, party: 0, models: std::mem::take(&mut models), has_shared: shared_ref, shared_text: &text, faults };
        for _ in 0..n_main {
            let live = g.live();
            if !live.is_empty() && g.rng.chance(2, 5) {
                let i = live[g.rng.below(live.len())];
                let op = TOp::Drop { i };
                apply_model(&mut g.models, &op, &text);
                main_ops.push(op);
            } else {
                main_ops.push(g.op());
            }
        }
    }
    let fail_req = if faults && rng.chance(1, 2) { vec![rng.below(6) as u64] } else { Vec::new() };
    Program { text, init, extra_holders, shared_ref, shared_only, threads, main_ops, fail_req }
}

// ------------------------------------------------------------------------------------------------
// sequential model of one thread

pub fn apply_model(models: &mut Vec<Option<String>>, op: &TOp, shared_text: &str) {
    let get = |models: &mut Vec<Option<String>>, i: usize| -> Option<String> { models.get(i).cloned().flatten() };
    match op {
        TOp::Clone { src } => {
            let v = get(models, *src);
            if v.is_some() {
                models.push(v);
            }
        }
        TOp::CloneShared => models.push(Some(shared_text.to_string())),
        TOp::ReadShared | TOp::Read { .. } | TOp::Reserve { .. } | TOp::ShrinkTo { .. } | TOp::ShrinkToFit { .. } => {}
        TOp::Drop { i } => {
            if let Some(m) = models.get_mut(*i) {
                *m = None;
            }
        }
        TOp::CloneFrom { dst, src } => {
            if dst != src {
                if let (Some(s), Some(_)) = (get(models, *src), get(models, *dst)) {
                    models[*dst] = Some(s);
                }
            }
        }
        _ => {
            let i = match op {
                TOp::Push { i, .. }
                | TOp::PushStr { i, .. }
                | TOp::Insert { i, .. }
                | TOp::InsertStr { i, .. }
                | TOp::Remove { i, .. }
                | TOp::Pop { i }
                | TOp::Retain { i, .. }
                | TOp::RetainPanic { i, .. }
                | TOp::ExtendPanic { i, .. }
                | TOp::Truncate { i, .. }
                | TOp::Clear { i } => *i,
                _ => unreachable!(),
            };
            let Some(Some(m)) = models.get_mut(i) else { return };
            match op {
                TOp::Push { ch, .. } => m.push(*ch),
                TOp::PushStr { s, .. } => m.push_str(s),
                TOp::Insert { idx, ch, .. } => {
                    if m.is_char_boundary(*idx) {
                        m.insert(*idx, *ch)
                    }
                }
                TOp::InsertStr { idx, s, .. } => {
                    if m.is_char_boundary(*idx) {
                        m.insert_str(*idx, s)
                    }
                }
                TOp::Remove { idx, .. } => {
                    if *idx < m.len() && m.is_char_boundary(*idx) {
                        m.remove(*idx);
                    }
                }
                TOp::Pop { .. } => {
                    m.pop();
                }
                TOp::Retain { mask, .. } => {
                    let mut k = 0;
                    let mask = *mask;
                    m.retain(|_| {
                        let keep = (mask >> (k % 64)) & 1 == 1;
                        k += 1;
                        keep
                    })
                }
                TOp::RetainPanic { mask, at, .. } => {
                    // what `String::retain` holds after the same panic: the kept prefix
                    let (mask, at) = (*mask, *at);
                    let mut k = 0;
                    let _ = catch_unwind(AssertUnwindSafe(|| {
                        m.retain(|_| {
                            if k == at {
                                std::panic::panic_any(super::ops::INJECTED_PANIC);
                            }
                            let keep = (mask >> (k % 64)) & 1 == 1;
                            k += 1;
                            keep
                        })
                    }));
                }
                TOp::ExtendPanic { chars, at, .. } => {
                    for (k, c) in chars.chars().enumerate() {
                        if k == *at {
                            break;
                        }
                        m.push(c);
                    }
                }
                TOp::Truncate { len, .. } => {
                    if *len <= m.len() && m.is_char_boundary(*len) {
                        m.truncate(*len)
                    }
                }
                TOp::Clear { .. } => m.clear(),
                _ => {}
            }
        }
    }
}

// ------------------------------------------------------------------------------------------------
// interpreter

struct Party {
    id: usize,
    locals: Vec<Option<LeanString>>,
    models: Vec<Option<String>>,
    shared: Option<Arc<LeanString>>,
    shared_text: String,
}

/// Was a failure (Err / allocation panic) legitimate? Only if the allocator refused at least as
/// many requests as failures have been observed so far (each refusal fails at most one call).
fn failure_allowed() -> bool {
    let fired = heap::counters().faults();
    let mut seen = FAILURES_SEEN.lock().unwrap_or_else(|e| e.into_inner());
    *seen += 1;
    *seen <= fired
}

fn real_op(p: &mut Party, op: &TOp) -> Result<(), &'static str> {
    fn idx_ok(t: &LeanString, idx: usize) -> bool {
        t.is_char_boundary(idx)
    }
    macro_rules! tgt {
        ($i:expr) => {
            match p.locals.get_mut(*$i) {
                Some(Some(t)) => t,
                _ => return Ok(()),
            }
        };
    }
    match op {
        TOp::Clone { src } => {
            if let Some(Some(s)) = p.locals.get(*src) {
                let c = s.clone();
                p.locals.push(Some(c));
            }
        }
        TOp::CloneShared => {
            let c = match &p.shared {
                Some(a) => Some(LeanString::clone(a)),
                // keep locals aligned with the model (minimisation may have removed the shared ref)
                None => Some(LeanString::from(p.shared_text.as_str())),
            };
            p.locals.push(c);
        }
        TOp::ReadShared => {
            if let Some(a) = &p.shared {
                let b = a.as_bytes();
                yieldp::point("read");
                if b != p.shared_text.as_bytes() {
                    return Err("the handle shared by reference reads differently from its text");
                }
            }
        }
        TOp::Drop { i } => {
            if let Some(l) = p.locals.get_mut(*i) {
                *l = None;
            }
        }
        TOp::Read { i } => {
            if let (Some(Some(t)), Some(Some(m))) = (p.locals.get(*i), p.models.get(*i)) {
                let b = t.as_bytes();
                yieldp::point("read");
                if b != m.as_bytes() {
                    return Err("a handle reads differently from what its own thread wrote");
                }
            }
        }
        TOp::Push { i, ch, try_ } => {
            let t = tgt!(i);
            if *try_ {
                if t.try_push(*ch).is_err() {
                    return Err("alloc");
                }
            } else {
                t.push(*ch)
            }
        }
        TOp::PushStr { i, s, try_ } => {
            let t = tgt!(i);
            if *try_ {
                if t.try_push_str(s).is_err() {
                    return Err("alloc");
                }
            } else {
                t.push_str(s)
            }
        }
        TOp::Insert { i, idx, ch } => {
            let t = tgt!(i);
            if idx_ok(t, *idx) {
                t.insert(*idx, *ch)
            }
        }
        TOp::InsertStr { i, idx, s } => {
            let t = tgt!(i);
            if idx_ok(t, *idx) {
                t.insert_str(*idx, s)
            }
        }
        TOp::Remove { i, idx } => {
            let t = tgt!(i);
            if *idx < t.len() && idx_ok(t, *idx) {
                t.remove(*idx);
            }
        }
        TOp::Pop { i } => {
            tgt!(i).pop();
        }
        TOp::Retain { i, mask } => {
            let mut k = 0;
            let mask = *mask;
            tgt!(i).retain(|_| {
                let keep = (mask >> (k % 64)) & 1 == 1;
                k += 1;
                keep
            })
        }
        TOp::RetainPanic { i, mask, at } => {
            let (mask, at) = (*mask, *at);
            let mut k = 0;
            let t = tgt!(i);
            let r = catch_unwind(AssertUnwindSafe(|| {
                t.retain(|_| {
                    if k == at {
                        std::panic::panic_any(super::ops::INJECTED_PANIC);
                    }
                    let keep = (mask >> (k % 64)) & 1 == 1;
                    k += 1;
                    keep
                })
            }));
            if let Err(p) = r {
                if p.downcast_ref::<&'static str>() != Some(&super::ops::INJECTED_PANIC) {
                    std::panic::resume_unwind(p);
                }
            }
        }
        TOp::ExtendPanic { i, chars, at } => {
            let at = *at;
            let cs: Vec<char> = chars.chars().collect();
            let t = tgt!(i);
            let mut k = 0;
            let r = catch_unwind(AssertUnwindSafe(|| {
                t.extend(std::iter::from_fn(|| {
                    if k == at {
                        std::panic::panic_any(super::ops::INJECTED_PANIC);
                    }
                    let c = cs.get(k).copied();
                    k += 1;
                    c
                }))
            }));
            if let Err(p) = r {
                if p.downcast_ref::<&'static str>() != Some(&super::ops::INJECTED_PANIC) {
                    std::panic::resume_unwind(p);
                }
            }
        }
        TOp::Truncate { i, len } => {
            let t = tgt!(i);
            if *len <= t.len() && idx_ok(t, *len) {
                t.truncate(*len)
            }
        }
        TOp::Clear { i } => tgt!(i).clear(),
        TOp::Reserve { i, n, try_ } => {
            let t = tgt!(i);
            if *try_ {
                if t.try_reserve(*n).is_err() {
                    return Err("alloc");
                }
            } else {
                t.reserve(*n)
            }
        }
        TOp::ShrinkTo { i, n } => tgt!(i).shrink_to(*n),
        TOp::ShrinkToFit { i } => tgt!(i).shrink_to_fit(),
        TOp::CloneFrom { dst, src } => {
            if dst != src && *dst < p.locals.len() && *src < p.locals.len() && p.locals[*dst].is_some() && p.locals[*src].is_some() {
                let s = p.locals[*src].as_ref().unwrap().clone();
                p.locals[*dst].as_mut().unwrap().clone_from(&s);
                drop(s);
            }
        }
    }
    Ok(())
}

fn target_of(op: &TOp) -> Option<usize> {
    match op {
        TOp::Push { i, .. }
        | TOp::PushStr { i, .. }
        | TOp::Insert { i, .. }
        | TOp::InsertStr { i, .. }
        | TOp::Remove { i, .. }
        | TOp::Pop { i }
        | TOp::Retain { i, .. }
        | TOp::RetainPanic { i, .. }
        | TOp::ExtendPanic { i, .. }
        | TOp::Truncate { i, .. }
        | TOp::Clear { i }
        | TOp::Reserve { i, .. }
        | TOp::ShrinkTo { i, .. }
        | TOp::ShrinkToFit { i }
        | TOp::Read { i } => Some(*i),
        TOp::CloneFrom { dst, .. } => Some(*dst),
        _ => None,
    }
}

fn run_party(mut p: Party, ops: &[TOp]) -> Party {
    for (k, op) in ops.iter().enumerate() {
        if violation().is_some() {
            break;
        }
        let before = target_of(op).and_then(|i| p.models.get(i).cloned().flatten());
        let r = catch_unwind(AssertUnwindSafe(|| real_op(&mut p, op)));
        let mk = |inv: &str, detail: String| ConcViolation { invariant: inv.into(), thread: p.id, op_index: k, op: op.name().into(), detail };
        let failed = match r {
            Ok(Ok(())) => false,
            Ok(Err("alloc")) => true,
            Ok(Err(why)) => {
                report(mk("thread_read_mismatch", why.to_string()));
                break;
            }
            Err(payload) => {
                let msg = if let Some(s) = payload.downcast_ref::<&'static str>() {
                    s.to_string()
                } else if let Some(s) = payload.downcast_ref::<String>() {
                    s.clone()
                } else {
                    "<non-string panic>".into()
                };
                if msg == super::ops::ALLOC_PANIC {
                    true
                } else {
                    report(mk("thread_panicked", msg));
                    break;
                }
            }
        };
        if failed {
            if !failure_allowed() {
                report(mk("spurious_alloc_failure", "an operation failed to allocate although the allocator refused nothing".into()));
                break;
            }
            // a failed operation leaves its target as it was
            if let (Some(i), Some(b)) = (target_of(op), before) {
                let now = p.locals.get(i).and_then(|x| x.as_ref()).map(|t| t.as_bytes().to_vec());
                let ok = match (op, &now) {
                    // an iterator-driven operation may stop between two items
                    (TOp::ExtendPanic { chars, .. }, Some(n)) => {
                        n.starts_with(b.as_bytes()) && chars.as_bytes().starts_with(&n[b.len()..]) && std::str::from_utf8(n).is_ok()
                    }
                    (_, Some(n)) => n == b.as_bytes(),
                    _ => false,
                };
                if !ok {
                    report(mk("failed_op_changed_target", format!("expected {b:?}")));
                    break;
                }
                if let (TOp::ExtendPanic { .. }, Some(n)) = (op, now) {
                    p.models[i] = Some(String::from_utf8(n).unwrap());
                }
            }
            continue;
        }
        if heap::HOOKED {
            if let Some(hv) = heap::take_violation() {
                report(mk(hv.kind, hv.detail));
                break;
            }
        }
        apply_model(&mut p.models, op, &p.shared_text);
        // every handle this thread owns reads what the thread's own operations produce
        if p.locals.len() != p.models.len() {
            report(mk("harness_locals_out_of_sync", format!("{} vs {}", p.locals.len(), p.models.len())));
            break;
        }
        let mut bad = None;
        for (j, (l, m)) in p.locals.iter().zip(p.models.iter()).enumerate() {
            match (l, m) {
                (Some(l), Some(m)) => {
                    if l.as_bytes() != m.as_bytes() || l.len() != m.len() {
                        bad = Some(format!("local {j}: crate holds {:?}, sequential model holds {m:?}", String::from_utf8_lossy(l.as_bytes())));
                        break;
                    }
                }
                (None, None) => {}
                _ => {
                    bad = Some(format!("local {j}: liveness differs"));
                    break;
                }
            }
        }
        if let Some(d) = bad {
            report(mk("thread_op_mismatch", d));
            break;
        }
    }
    p
}

fn make_root(prog: &Program) -> LeanString {
    match &prog.init {
        Init::Inline | Init::HeapExact => LeanString::from(prog.text.as_str()),
        Init::Static { arena } => LeanString::from_static_str(Arena::get().text(*arena, usize::MAX)),
        Init::HeapSlack { cap } => {
            let mut s = LeanString::with_capacity((*cap).max(prog.text.len()));
            s.push_str(&prog.text);
            s
        }
    }
}

/// Execute the program once under whatever scheduler the runtime provides. Violations are left in
/// the global slot (`violation()`).
pub fn execute(prog: &Arc<Program>) {
    *FAILURES_SEEN.lock().unwrap_or_else(|e| e.into_inner()) = 0;
    let root = make_root(prog);
    let text = prog.text.clone();
    let only = prog.shared_only && prog.shared_ref;
    let shared = if prog.shared_ref { Some(Arc::new(root.clone())) } else { None };
    let root = if only {
        // (shadowing alone would keep the original alive until the end of this function)
        drop(root);
        None
    } else {
        Some(root)
    };
    let mut main = Party { id: 0, locals: vec![], models: vec![], shared: shared.clone(), shared_text: text.clone() };
    let mut handles = Vec::new();
    // prepare every thread's handle before any thread starts, then spawn
    let mut prepared = Vec::new();
    for (t, tp) in prog.threads.iter().enumerate() {
        let (l, m) = if (tp.from_shared || only) && shared.is_some() {
            (None, None)
        } else {
            let mut c = root.as_ref().unwrap().clone();
            let mut m = text.clone();
            if let Some(n) = tp.pre_truncate {
                if n <= m.len() && m.is_char_boundary(n) {
                    c.truncate(n);
                    m.truncate(n);
                }
            }
            (Some(c), Some(m))
        };
        prepared.push((t, l, m));
    }
    if let Some(root) = root {
        main.locals.push(Some(root));
        main.models.push(Some(text.clone()));
    }
    for _ in 0..(if only { 0 } else { prog.extra_holders }) {
        let c = main.locals[0].as_ref().unwrap().clone();
        main.locals.push(Some(c));
        main.models.push(Some(text.clone()));
    }
    // injected allocator failures count from here: the set-up above is not part of the experiment
    let base = heap::counters().requests();
    let planned: Vec<u64> = prog.fail_req.iter().map(|k| base + k).collect();
    heap::set_fail_run_req(&planned);
    for (t, l, m) in prepared {
        let prog2 = Arc::clone(prog);
        let shared2 = shared.clone();
        let text2 = text.clone();
        handles.push(thread::spawn(move || {
            let mut p = Party { id: t + 1, locals: vec![], models: vec![], shared: shared2, shared_text: text2 };
            match l {
                Some(l) => {
                    p.locals.push(Some(l));
                    p.models.push(m);
                }
                None => {
                    // the thread makes its own handle through the shared reference
                    let c = LeanString::clone(p.shared.as_ref().unwrap());
                    p.locals.push(Some(c));
                    p.models.push(Some(p.shared_text.clone()));
                }
            }
            let mut p = run_party(p, &prog2.threads[t].ops);
            // the Arc (and possibly the last reference to the shared handle) goes away here,
            // inside the thread
            p.shared = None;
            p
        }));
    }
    drop(shared);
    let mut main = run_party(main, &prog.main_ops);
    main.shared = None;
    let mut parties = vec![main];
    for h in handles {
        match h.join() {
            Ok(p) => parties.push(p),
            Err(_) => report(ConcViolation { invariant: "thread_panicked".into(), thread: 99, op_index: 0, op: "join".into(), detail: "a thread unwound past its body".into() }),
        }
    }
    // all threads joined: every surviving handle still reads its thread's value; reference counts
    // equal the surviving handles per buffer; then everything is released
    let mut survivors: Vec<(usize, &LeanString, &String)> = Vec::new();
    for p in &parties {
        for (l, m) in p.locals.iter().zip(p.models.iter()) {
            if let (Some(l), Some(m)) = (l, m) {
                survivors.push((p.id, l, m));
            }
        }
    }
    if violation().is_none() {
        for (tid, l, m) in &survivors {
            if l.as_bytes() != m.as_bytes() {
                report(ConcViolation {
                    invariant: "final_value_mismatch".into(),
                    thread: *tid,
                    op_index: usize::MAX,
                    op: "after_join".into(),
                    detail: format!("crate holds {:?}, model holds {m:?}", String::from_utf8_lossy(l.as_bytes())),
                });
                break;
            }
        }
    }
    if violation().is_none() && heap::HOOKED {
        let mut per_block: std::collections::BTreeMap<usize, Vec<Option<usize>>> = Default::default();
        for (_, l, _) in &survivors {
            if l.is_heap_allocated() {
                match heap::with(|h| h.block_containing(l.as_ptr() as usize)) {
                    Some(b) if b.live => per_block.entry(b.id).or_default().push(heap::ref_count(l)),
                    _ => report(ConcViolation {
                        invariant: "buffer_released_under_reader".into(),
                        thread: 0,
                        op_index: usize::MAX,
                        op: "after_join".into(),
                        detail: "a surviving handle points into a released block".into(),
                    }),
                }
            }
        }
        for (id, rcs) in &per_block {
            if rcs.iter().any(|rc| *rc != Some(rcs.len())) {
                report(ConcViolation {
                    invariant: "refcount_mismatch".into(),
                    thread: 0,
                    op_index: usize::MAX,
                    op: "after_join".into(),
                    detail: format!("block #{id}: counts {rcs:?} with {} surviving handle(s)", rcs.len()),
                });
            }
        }
        let live = heap::with(|h| h.live_blocks());
        for b in live {
            if !per_block.contains_key(&b.id) && violation().is_none() {
                report(ConcViolation {
                    invariant: "leaked_block".into(),
                    thread: 0,
                    op_index: usize::MAX,
                    op: "after_join".into(),
                    detail: format!("block #{} is live but no surviving handle refers to it", b.id),
                });
            }
        }
    }
    drop(survivors);
    drop(parties);
}

/// Fingerprint of a program (for distinct counts).
pub fn program_hash(p: &Program) -> u64 {
    let mut d = Digest::new();
    d.str(&serde_json::to_string(p).unwrap_or_default());
    d.finish()
}

#[allow(dead_code)]
fn _unused() {
    let _ = random_char;
}
