//! Executing a case step by step against the crate and the model, evaluating every invariant
//! after every step. The first violated invariant ends the run.

use super::exec::{self, Arena, Model};
use super::genr::INLINE;
use super::heap;
use super::heapcfg::Counters;
use super::ops::*;
use super::rng::Digest;
use lean_string::LeanString;
use std::collections::BTreeMap;

#[derive(Clone, Copy, Debug, PartialEq, Eq)]
pub enum Storage {
    Inline,
    Static,
    Heap,
}

impl Storage {
    pub fn name(&self) -> &'static str {
        match self {
            Storage::Inline => "inline",
            Storage::Static => "static",
            Storage::Heap => "heap",
        }
    }
}

#[derive(Clone, Debug)]
pub struct Snap {
    pub bytes: Vec<u8>,
    pub len: usize,
    pub cap: usize,
    pub ptr: usize,
    pub class: Storage,
    pub rc: Option<usize>,
    /// (block id, live) of the shadow-heap block the text pointer lies in
    pub block: Option<(usize, bool)>,
    /// the text could not be read safely (pointer outside anything the harness knows)
    pub unreadable: Option<&'static str>,
}

pub fn classify(h: &LeanString) -> Storage {
    if h.is_heap_allocated() {
        return Storage::Heap;
    }
    let p = h.as_ptr() as usize;
    let base = h as *const LeanString as usize;
    if p >= base && p < base + std::mem::size_of::<LeanString>() { Storage::Inline } else { Storage::Static }
}

pub fn snap(h: &LeanString) -> Snap {
    let class = classify(h);
    let ptr = h.as_ptr() as usize;
    let len = h.len();
    let cap = h.capacity();
    let mut block = None;
    let mut unreadable = None;
    let mut rc = None;
    match class {
        Storage::Heap => {
            if heap::HOOKED {
                match heap::with(|hp| hp.block_containing(ptr)) {
                    Some(b) => {
                        block = Some((b.id, b.live));
                        if ptr + len > b.user + b.size {
                            unreadable = Some("text extends past its block");
                        }
                    }
                    None => unreadable = Some("heap text pointer outside every block the crate obtained"),
                }
            }
            if unreadable.is_none() {
                rc = heap::ref_count(h);
            }
        }
        Storage::Static => {
            let a = Arena::get();
            match a.containing(ptr) {
                Some(i) => {
                    let t = &a.texts[i];
                    if ptr + len > t.ptr as usize + t.len {
                        unreadable = Some("static text extends past the caller's bytes");
                    }
                }
                // an empty string may point anywhere (e.g. at a constant inside the crate): nothing is read
                None if len == 0 => {}
                None => unreadable = Some("non-heap text pointer outside the handle and the static arena"),
            }
        }
        Storage::Inline => {
            if len > INLINE {
                unreadable = Some("inline length above the inline size");
            }
        }
    }
    let bytes = if unreadable.is_none() { h.as_bytes().to_vec() } else { Vec::new() };
    Snap { bytes, len, cap, ptr, class, rc, block, unreadable }
}

#[derive(Clone, Debug, serde::Serialize, serde::Deserialize, PartialEq)]
pub struct Violation {
    pub props: Vec<String>,
    /// the subset of `props` that was added because of the context the step ran in (an injected
    /// refusal, a callback panic, a giant size argument) rather than because of the clause itself;
    /// such a tag is kept only if the violation disappears when that fault is taken away
    #[serde(default, skip_serializing_if = "Vec::is_empty")]
    pub ctx: Vec<String>,
    pub invariant: String,
    pub step: usize,
    pub op: String,
    pub target: String,
    pub fault: String,
    pub detail: String,
}

impl Violation {
    /// The class used to match known findings and to decide "same violation" while minimising.
    pub fn class(&self) -> String {
        format!("{}|{}|{}|{}", self.invariant, self.op, self.target, self.fault)
    }
    pub fn has_prop(&self, p: &str) -> bool {
        self.props.iter().any(|x| x == p)
    }
}

pub const REL_PROPS: [&str; 16] =
    ["C01", "C02", "C03", "C05", "C06", "C07", "C08", "C09", "C10", "C11", "C12", "C13", "C17", "C18", "C20", "C04"];

fn rel_bit(p: &str) -> u32 {
    1 << REL_PROPS.iter().position(|x| *x == p).expect("unknown property")
}

#[derive(Clone, Debug, Default)]
pub struct RunStats {
    pub steps: u64,
    pub probes: BTreeMap<&'static str, u64>,
    /// per-property: did the run evaluate that property's own clause non-vacuously?
    pub relevance: u32,
    pub counters: Counters,
    pub callback_panics: u64,
    pub bad_index_panics: u64,
    pub lying_hints: u64,
    pub giant_sizes: u64,
    pub requests_per_step: Vec<u32>,
    pub callbacks_per_step: Vec<u32>,
}

impl RunStats {
    pub fn probe(&mut self, name: &'static str) {
        *self.probes.entry(name).or_insert(0) += 1;
    }
    pub fn relevant(&mut self, p: &str) {
        self.relevance |= rel_bit(p);
    }
    pub fn is_relevant(&self, p: &str) -> bool {
        self.relevance & rel_bit(p) != 0
    }
}

#[derive(Clone, Debug, Default)]
pub struct RunOpts {
    /// the property whose check this run serves: the run ends at the first violation tagged with
    /// it (or at any violation after which the heap cannot be trusted); violations of *other*
    /// properties that leave the heap structurally intact are noted and the run goes on, so that
    /// this property's own symptoms can still be observed. `None`: end at the first violation.
    pub own: Option<String>,
    /// evaluate the expensive part of C17 (formatting, map lookups) after every step
    pub deep_c17: bool,
    /// record per-step request / callback counts (needed by the sweeps)
    pub record_counts: bool,
}

pub struct RunReport {
    pub violation: Option<Violation>,
    pub stats: RunStats,
    pub digest: u64,
    pub fingerprint: u64,
    pub executed: Vec<Step>,
}

/// Source of steps: either an explicit list (replay, grids, sweeps) or a generator.
pub trait StepSource {
    fn next(&mut self, models: &[Option<Model>]) -> Option<Step>;
}

pub struct Explicit<'a> {
    pub steps: &'a [Step],
    pub at: usize,
}

impl StepSource for Explicit<'_> {
    fn next(&mut self, _: &[Option<Model>]) -> Option<Step> {
        let s = self.steps.get(self.at).cloned();
        self.at += 1;
        s
    }
}

struct Ctx<'a> {
    idx: usize,
    st: &'a Step,
    pre: &'a [Option<Snap>],
    post: &'a [Option<Snap>],
    pre_models: &'a [Option<Model>],
    models: &'a [Option<Model>],
    real: &'a Outcome,
    model: &'a Outcome,
    d: Counters,
    limit: usize,
    cb_panics: usize,
    /// the property this run serves (see `RunOpts::own`)
    own: Option<&'a str>,
}

fn delta(a: &Counters, b: &Counters) -> Counters {
    Counters {
        alloc: b.alloc - a.alloc,
        realloc: b.realloc - a.realloc,
        dealloc: b.dealloc - a.dealloc,
        failed_alloc: b.failed_alloc - a.failed_alloc,
        failed_realloc: b.failed_realloc - a.failed_realloc,
        refused: b.refused - a.refused,
        realloc_moved: b.realloc_moved - a.realloc_moved,
        realloc_inplace: b.realloc_inplace - a.realloc_inplace,
        bytes_moved: b.bytes_moved - a.bytes_moved,
    }
}

fn add_counters(a: &mut Counters, b: &Counters) {
    a.alloc += b.alloc;
    a.realloc += b.realloc;
    a.dealloc += b.dealloc;
    a.failed_alloc += b.failed_alloc;
    a.failed_realloc += b.failed_realloc;
    a.refused += b.refused;
    a.realloc_moved += b.realloc_moved;
    a.realloc_inplace += b.realloc_inplace;
    a.bytes_moved += b.bytes_moved;
}

impl Ctx<'_> {
    fn fault_fired(&self) -> bool {
        self.d.faults() > 0
    }

    fn fault_name(&self) -> String {
        let mut v = Vec::new();
        if self.d.failed_alloc > 0 {
            v.push("alloc_null");
        }
        if self.d.failed_realloc > 0 {
            v.push("realloc_null");
        }
        if self.d.refused > 0 {
            v.push("refused_giant");
        }
        if self.cb_panics > 0 {
            v.push("callback_panic");
        }
        if v.is_empty() { "none".into() } else { v.join("+") }
    }

    fn target_desc(&self) -> String {
        match self.pre.get(self.st.slot).and_then(|s| s.as_ref()) {
            None => "empty".into(),
            Some(s) => match (s.class, s.rc) {
                (Storage::Heap, Some(1)) => "heap-unique".into(),
                (Storage::Heap, Some(_)) => "heap-shared".into(),
                (c, _) => c.name().into(),
            },
        }
    }

    /// Tags added because of the context the step ran in (same clause stated by several properties).
    fn ctx_tags(&self, base: &[&str]) -> Vec<String> {
        let mut v: Vec<String> = base.iter().map(|s| s.to_string()).collect();
        let mut add = |p: &str| {
            if !v.iter().any(|x| x == p) {
                v.push(format!("+{p}"))
            }
        };
        if self.fault_fired() {
            add("C05");
        }
        if self.cb_panics > 0 {
            add("C18");
        }
        if let Some(n) = self.st.op.size_arg() {
            if n > self.limit / 2 || self.d.refused > 0 {
                add("C06");
            }
        }
        v
    }

    fn v(&self, props: Vec<String>, invariant: &str, detail: String) -> Violation {
        // entries starting with '+' are contextual tags (see `ctx_tags`)
        let ctx: Vec<String> = props.iter().filter(|p| p.starts_with('+')).map(|p| p[1..].to_string()).collect();
        let props: Vec<String> = props.iter().map(|p| p.trim_start_matches('+').to_string()).collect();
        Violation {
            props,
            ctx,
            invariant: invariant.to_string(),
            step: self.idx,
            op: self.st.op.name().to_string(),
            target: self.target_desc(),
            fault: self.fault_name(),
            detail,
        }
    }

    fn plain(&self, props: &[&str], invariant: &str, detail: String) -> Violation {
        self.v(props.iter().map(|s| s.to_string()).collect(), invariant, detail)
    }
}

fn show(b: &[u8]) -> String {
    let s = String::from_utf8_lossy(b);
    if s.len() > 80 { format!("{:?}… ({} bytes)", &s.chars().take(60).collect::<String>(), b.len()) } else { format!("{s:?}") }
}

/// Bytes the op appends/inserts (for C11/C12), if it is a single-growth op.
fn added_bytes(op: &Op) -> Option<usize> {
    match op {
        Op::Push { ch, .. } | Op::Insert { ch, .. } => Some(ch.len_utf8()),
        Op::PushStr { s, .. } | Op::InsertStr { s, .. } | Op::Add(s) | Op::AddAssign(s) => Some(s.len()),
        _ => None,
    }
}

/// Capacity the op cannot do without (C06: a failure is legitimate when this exceeds the limit).
fn needed_capacity(op: &Op, pre_len: usize) -> usize {
    match op {
        Op::WithCapacity { n, .. } => *n,
        Op::Reserve { n, .. } => pre_len.saturating_add(*n),
        Op::Collect { hint: Hint::Val(v), .. } => *v,
        Op::Extend { hint: Hint::Val(v), .. } => pre_len.saturating_add(*v),
        _ => added_bytes(op).map(|a| pre_len.saturating_add(a)).unwrap_or(0),
    }
}

fn outcomes_agree(real: &Outcome, model: &Outcome) -> bool {
    match (real, model) {
        (Outcome::Returned(a), Outcome::Returned(b)) => a == b,
        (Outcome::PanicOther(_), Outcome::PanicOther(_)) => true,
        (Outcome::PanicInjected, Outcome::PanicInjected) => true,
        _ => false,
    }
}

fn is_index_op(op: &Op) -> bool {
    matches!(op, Op::Remove { .. } | Op::Insert { .. } | Op::InsertStr { .. } | Op::Truncate { .. })
}

/// Units an item-sequence op appends, for the "may stop between items" rule.
fn item_units(op: &Op, pre_models: &[Option<Model>]) -> Vec<String> {
    match op {
        Op::Extend { kind, items, .. } | Op::Collect { kind, items, .. } => exec::units(*kind, items),
        Op::ExtendSlots { srcs } => srcs.iter().filter_map(|s| pre_models[*s].as_ref().map(|m| m.text.clone())).collect(),
        Op::Write { pieces, .. } => pieces.clone(),
        Op::ToLean { src: ToLeanSrc::Display { pieces, .. }, .. } => pieces.clone(),
        _ => Vec::new(),
    }
}

fn is_prefix_result(pre: &[u8], units: &[String], now: &[u8]) -> bool {
    if !now.starts_with(pre) {
        return false;
    }
    let mut rest = &now[pre.len()..];
    if rest.is_empty() {
        return true;
    }
    for u in units {
        if rest.starts_with(u.as_bytes()) {
            rest = &rest[u.len()..];
            if rest.is_empty() {
                return true;
            }
        } else {
            return false;
        }
    }
    rest.is_empty()
}

/// All invariants of one step, in fixed order. Returns the first violation.
fn check_step(c: &Ctx<'_>, stats: &mut RunStats, models_fix: &mut Option<Option<Model>>, known_orphans: &mut std::collections::BTreeSet<usize>) -> Option<Violation> {
    let t = c.st.slot;
    let op = &c.st.op;
    let fault = c.fault_fired();

    // ---- C03: allocator boundary -----------------------------------------------------------
    if let Some(hv) = heap::take_violation() {
        return Some(c.v(c.ctx_tags(&["C03"]), hv.kind, hv.detail));
    }
    // every live handle must be readable and, if on the heap, inside a live block it fits in
    for (j, s) in c.post.iter().enumerate() {
        let Some(s) = s else { continue };
        if let Some(why) = s.unreadable {
            return Some(c.v(c.ctx_tags(&["C03"]), "handle_points_nowhere", format!("slot {j}: {why}")));
        }
        if s.class == Storage::Heap && heap::HOOKED {
            match s.block {
                Some((id, false)) => {
                    return Some(c.v(
                        c.ctx_tags(&["C03"]),
                        "buffer_released_under_reader",
                        format!("slot {j} still points into block #{id}, which has been released or moved"),
                    ));
                }
                Some((id, true)) => {
                    let b = heap::with(|h| h.block_containing(s.ptr)).unwrap();
                    if s.ptr - b.user + s.cap > b.size {
                        return Some(c.v(
                            c.ctx_tags(&["C06", "C11", "C03"]),
                            "capacity_exceeds_block",
                            format!(
                                "slot {j}: capacity {} but block #{id} has only {} bytes behind the text pointer",
                                s.cap,
                                b.size - (s.ptr - b.user)
                            ),
                        ));
                    }
                }
                None => {}
            }
        }
    }
    if heap::HOOKED {
        // reference counts = live handles per block; no block without a handle
        let mut per_block: BTreeMap<usize, Vec<usize>> = BTreeMap::new();
        for (j, s) in c.post.iter().enumerate() {
            if let Some(Snap { class: Storage::Heap, block: Some((id, _)), .. }) = s {
                per_block.entry(*id).or_default().push(j);
            }
        }
        for (id, hs) in &per_block {
            for j in hs {
                let rc = c.post[*j].as_ref().unwrap().rc;
                if rc != Some(hs.len()) {
                    return Some(c.v(
                        c.ctx_tags(&["C03"]),
                        "refcount_mismatch",
                        format!("block #{id}: reference count {:?} but {} live handle(s) {:?}", rc, hs.len(), hs),
                    ));
                }
            }
            if hs.len() >= 3 {
                let mut lens: Vec<usize> = hs.iter().map(|j| c.post[*j].as_ref().unwrap().len).collect();
                lens.sort_unstable();
                lens.dedup();
                if lens.len() >= 3 {
                    stats.probe("three_sharers_three_lengths");
                }
            }
        }
        let live = heap::with(|h| h.live_blocks());
        for b in &live {
            // (an orphan already reported at an earlier step of a run that went on is not re-reported
            // under the name of every later operation)
            if !per_block.contains_key(&b.id) && known_orphans.insert(b.id) {
                return Some(c.v(
                    c.ctx_tags(&["C03"]),
                    "leaked_block",
                    format!("block #{} ({} bytes) is live but no handle refers to it", b.id, b.size),
                ));
            }
        }
    }

    // ---- C07/C01: valid UTF-8 at all times ----------------------------------------------------
    for (j, s) in c.post.iter().enumerate() {
        if let Some(s) = s {
            if std::str::from_utf8(&s.bytes).is_err() {
                return Some(c.v(c.ctx_tags(&["C07", "C01"]), "invalid_utf8", format!("slot {j} holds {}", show(&s.bytes))));
            }
        }
    }

    // ---- C02: every handle that was not the target is untouched ---------------------------
    let mut shared_with_other = false;
    if let Some(Some(pt)) = c.pre.get(t) {
        for (j, s) in c.pre.iter().enumerate() {
            if j != t {
                if let Some(s) = s {
                    if pt.class != Storage::Inline && s.class == pt.class && s.ptr == pt.ptr {
                        shared_with_other = true;
                    }
                }
            }
        }
    }
    for j in 0..c.pre.len() {
        if j == t {
            continue;
        }
        match (&c.pre[j], &c.post[j]) {
            (None, None) => {}
            (Some(a), Some(b)) => {
                if a.bytes != b.bytes || a.len != b.len || a.ptr != b.ptr {
                    return Some(c.v(
                        c.ctx_tags(&["C02"]),
                        "other_handle_changed",
                        format!(
                            "slot {j} (not the target) read {} len {} before and {} len {} after{}",
                            show(&a.bytes),
                            a.len,
                            show(&b.bytes),
                            b.len,
                            if a.ptr != b.ptr { " (pointer moved)" } else { "" }
                        ),
                    ));
                }
            }
            _ => return Some(c.plain(&["C02"], "other_handle_changed", format!("slot {j} appeared or vanished"))),
        }
    }
    if shared_with_other && !matches!(c.real, Outcome::Returned(Ret::Skipped)) {
        stats.relevant("C02");
    }

    // ---- outcome and target text --------------------------------------------------------------
    if matches!(c.real, Outcome::Returned(Ret::Skipped)) || matches!(c.model, Outcome::Returned(Ret::Skipped)) {
        if c.real != c.model {
            return Some(c.plain(&["C01"], "harness_skip_mismatch", format!("real {:?} model {:?}", c.real, c.model)));
        }
        return None;
    }
    let pre_t = c.pre[t].as_ref();
    let post_t = c.post[t].as_ref();
    let pre_len = pre_t.map(|s| s.len).unwrap_or(0);
    let pre_bytes: &[u8] = pre_t.map(|s| &s.bytes[..]).unwrap_or(&[]);
    let alloc_failure = matches!(c.real, Outcome::Returned(Ret::ErrReserve) | Outcome::PanicAlloc);
    let mut normal_success = false;
    let mut swallowed: Option<Violation> = None;

    if alloc_failure {
        let needed = needed_capacity(op, pre_len);
        if !fault && needed <= c.limit {
            // (not C06: that property allows either outcome for every size, it only forbids damage)
            let p = vec!["C01"];
            return Some(c.plain(
                &p,
                "spurious_alloc_failure",
                format!("{:?} although no request was refused and only {needed} bytes were needed", c.real),
            ));
        }
        if op.is_try() && matches!(c.real, Outcome::PanicAlloc) {
            return Some(c.v(
                c.ctx_tags(&["C05"]),
                "try_form_panicked",
                "the try_ form panicked with the allocation error instead of returning it".into(),
            ));
        }
        // the target still holds exactly what it held before (item sequences: a whole-item prefix)
        let consumed = matches!(op, Op::Add(_));
        let ok = if consumed {
            post_t.is_none()
        } else if op.is_constructor() && !matches!(op, Op::CloneFrom { .. }) {
            match (pre_t, post_t) {
                (None, None) => true,
                (Some(a), Some(b)) => a.bytes == b.bytes && a.len == b.len,
                _ => false,
            }
        } else if op.is_item_sequence() {
            post_t.is_some_and(|p| is_prefix_result(pre_bytes, &item_units(op, c.pre_models), &p.bytes))
        } else {
            post_t.is_some_and(|p| p.bytes == pre_bytes && p.len == pre_len)
        };
        if !ok {
            return Some(c.v(
                c.ctx_tags(&["C05"]),
                "failed_op_changed_target",
                format!("before {} after {:?}", show(pre_bytes), post_t.map(|p| show(&p.bytes))),
            ));
        }
        // ... and an exclusively owned target keeps the room it had: a failed call is not a shrink
        // request (C11: reserved room is really there; C06/C05: nothing is left changed)
        if let (Some(a), Some(b)) = (pre_t, post_t) {
            let exclusive = a.class == Storage::Inline || (a.class == Storage::Heap && a.rc == Some(1));
            // (iterator-driven operations may have made progress, reallocating on the way)
            if exclusive && !consumed && !op.is_constructor() && !op.is_item_sequence() && b.cap < a.cap {
                return Some(c.v(
                    c.ctx_tags(&["C11"]),
                    "failed_op_lost_capacity",
                    format!("capacity {} ({}) before the failed call, {} ({}) after it", a.cap, a.class.name(), b.cap, b.class.name()),
                ));
            }
        }
        stats.relevant("C05");
        if op.size_arg().is_some() {
            stats.relevant("C06");
        }
        // model follows what the (legitimately) failed operation left behind
        *models_fix = Some(match post_t {
            None => None,
            Some(p) => {
                let mut m = c.pre_models[t].clone().unwrap_or_else(|| Model::new(String::new()));
                m.text = String::from_utf8(p.bytes.clone()).unwrap();
                if !op.is_constructor() {
                    m.static_of = None;
                    m.static_long = false;
                }
                Some(m)
            }
        });
    } else if fault && op.is_item_sequence() && matches!(c.real, Outcome::PanicInjected) && !matches!(c.model, Outcome::PanicInjected)
    {
        // an allocation fault and a callback panic in one step: either may win; prefix rule
        let ok = post_t.is_some_and(|p| is_prefix_result(pre_bytes, &item_units(op, c.pre_models), &p.bytes))
            || (op.is_constructor() && pre_t.map(|s| &s.bytes) == post_t.map(|s| &s.bytes));
        if !ok {
            return Some(c.v(c.ctx_tags(&["C05", "C18"]), "failed_op_changed_target", format!("after {:?}", post_t.map(|p| show(&p.bytes)))));
        }
        *models_fix = Some(post_t.map(|p| Model::new(String::from_utf8(p.bytes.clone()).unwrap())));
    } else {
        if !outcomes_agree(c.real, c.model) {
            let idx_mismatch = is_index_op(op)
                && (matches!(c.real, Outcome::PanicOther(_)) != matches!(c.model, Outcome::PanicOther(_)));
            let props: Vec<&str> = if idx_mismatch {
                vec!["C07", "C01"]
            } else if c.cb_panics > 0 || matches!(c.model, Outcome::PanicInjected) {
                vec!["C18", "C01"]
            } else {
                vec!["C01"]
            };
            let name = if idx_mismatch { "index_panic_mismatch" } else { "result_mismatch" };
            return Some(c.plain(&props, name, format!("crate: {:?}; String model: {:?}", c.real, c.model)));
        }
        // text equality with the model
        let want = c.models[t].as_ref().map(|m| m.text.as_bytes());
        let got = post_t.map(|p| &p.bytes[..]);
        if want != got || post_t.map(|p| p.len) != want.map(|w| w.len()) {
            let clone_like = matches!(op, Op::Clone { .. } | Op::CloneFrom { .. } | Op::FromRef { .. } | Op::ToLean { src: ToLeanSrc::Slot(_), .. });
            let props: Vec<&str> = if got.is_none() && want.is_some() {
                // the pool stores `Option<LeanString>`: a live string that reads back as `None`
                // is exactly C20's "Some(s) mistaken for None"
                vec!["C20", "C01"]
            } else if matches!(c.real, Outcome::PanicInjected) {
                vec!["C18", "C01"]
            } else if clone_like {
                // "the copy compares equal to the original" is C08's clause as much as C01's
                vec!["C01", "C08"]
            } else {
                vec!["C01"]
            };
            return Some(c.plain(
                &props,
                if got.is_none() && want.is_some() {
                    "some_reads_as_none"
                } else if matches!(c.real, Outcome::PanicInjected) {
                    "panic_state_mismatch"
                } else {
                    "text_mismatch"
                },
                format!("crate holds {:?} (len {:?}); String model holds {:?}", got.map(show), post_t.map(|p| p.len), want.map(show)),
            ));
        }
        stats.relevant("C01");
        if fault && matches!(c.real, Outcome::Returned(Ret::Unit | Ret::Pop(_) | Ret::Removed(_))) {
            // a refusal fired and the call still reports success (deliberate for hint reservations)
            if op.is_item_sequence() || matches!(op, Op::Collect { .. }) {
                stats.probe("refusal_swallowed_by_iterator_op");
            } else {
                // C05: a refused request makes the try_ form return the error and the plain form
                // panic; only the iterator-driven operations may carry on (they ignore a failed
                // size-hint reservation by design)
                swallowed = Some(c.v(
                    c.ctx_tags(&["C05"]),
                    "refusal_swallowed",
                    format!("the allocator refused a request during {} but the call reported success ({:?})", op.name(), c.real),
                ));
            }
        }
        if matches!(c.real, Outcome::PanicInjected) {
            stats.relevant("C18");
            stats.probe(match op.callback_panic_at() {
                Some(0) => "callback_panic_first",
                _ => "callback_panic_later",
            });
        }
        if matches!(c.real, Outcome::PanicOther(_)) && is_index_op(op) {
            // a rejected index has no effect whatsoever
            stats.relevant("C07");
            stats.bad_index_panics += 1;
            let (a, b) = (pre_t.unwrap(), post_t.unwrap());
            if a.ptr != b.ptr || a.cap != b.cap || a.class != b.class || a.len != b.len || a.rc != b.rc {
                return Some(c.plain(
                    &["C07"],
                    "rejected_index_had_effect",
                    format!("before ptr/cap/len/rc = {:?}, after = {:?}", (a.class, a.cap, a.len, a.rc), (b.class, b.cap, b.len, b.rc)),
                ));
            }
            if c.d.alloc + c.d.realloc + c.d.dealloc != 0 {
                return Some(c.plain(
                    &["C07"],
                    "rejected_index_had_effect",
                    format!("the allocator was called ({:?}) before the index was rejected", c.d),
                ));
            }
        } else if is_index_op(op) {
            stats.relevant("C07");
        }
        // postcondition clauses bind whenever the call reports success, even if a refusal was
        // swallowed on the way; the request-counting clauses are skipped in that case (see below)
        normal_success = matches!(c.real, Outcome::Returned(_));
    }

    // ---- clauses that speak about successful, fault-free calls ---------------------------------
    if normal_success {
        if let Some(v) = check_success_clauses(c, stats) {
            // two verdicts on one step: the one this check serves wins
            if let (Some(sw), Some(own)) = (&swallowed, c.own) {
                if sw.has_prop(own) && !v.has_prop(own) {
                    return swallowed;
                }
            }
            return Some(v);
        }
    }
    // (reported after the postcondition clauses, so that e.g. C13's own verdict on a shrink whose
    // refused realloc was swallowed is not pre-empted)
    if swallowed.is_some() {
        return swallowed;
    }

    // ---- C11: capacity >= len, for every handle, always ------------------------------------
    for (j, s) in c.post.iter().enumerate() {
        if let Some(s) = s {
            if s.cap < s.len {
                return Some(c.plain(&["C11"], "capacity_below_len", format!("slot {j}: capacity {} < len {}", s.cap, s.len)));
            }
        }
    }
    // ---- C10: the caller's static bytes are never written -----------------------------------
    if let Some(a) = Arena::get().check_pristine() {
        return Some(c.v(c.ctx_tags(&["C10"]), "static_text_modified", format!("static arena text #{a} no longer equals its pristine copy")));
    }
    None
}

fn check_success_clauses(c: &Ctx<'_>, stats: &mut RunStats) -> Option<Violation> {
    let t = c.st.slot;
    let op = &c.st.op;
    let pre_t = c.pre[t].as_ref();
    let post_t = c.post[t].as_ref();
    // request counts say nothing about the operation itself when an injected refusal fired in it
    let counts_valid = !c.fault_fired();
    let no_req = !counts_valid || (c.d.alloc == 0 && c.d.realloc == 0);
    let arena = Arena::get();

    // ---- C08 -----------------------------------------------------------------------------
    let clone_src = match op {
        Op::Clone { src } | Op::CloneFrom { src } | Op::FromRef { src } => Some(*src),
        Op::ToLean { src: ToLeanSrc::Slot(src), .. } => Some(*src),
        _ => None,
    };
    if let (Some(src), Some(p)) = (clone_src, post_t) {
        let s = c.pre[src].as_ref().unwrap();
        if !no_req {
            return Some(c.plain(&["C08"], "clone_allocated", format!("allocator requests during a clone: {:?}", c.d)));
        }
        match s.class {
            Storage::Heap | Storage::Static => {
                if p.ptr != s.ptr {
                    return Some(c.plain(&["C08"], "clone_not_shared", "the copy does not point at the original's bytes".into()));
                }
            }
            Storage::Inline => {
                if p.class != Storage::Inline {
                    return Some(c.plain(&["C08"], "clone_not_shared", "copy of an inline string is not inline".into()));
                }
            }
        }
        if p.bytes != s.bytes {
            return Some(c.plain(&["C08", "C01"], "clone_differs", format!("{} vs {}", show(&p.bytes), show(&s.bytes))));
        }
        stats.relevant("C08");
        if s.class != Storage::Inline {
            stats.probe("clone_of_shared_storage");
        }
    }

    // ---- C09 -----------------------------------------------------------------------------
    let whole_text = matches!(
        op,
        Op::FromStr(_) | Op::FromString(_) | Op::FromRefString(_) | Op::FromBoxStr(_) | Op::FromCowBorrowed(_) | Op::FromCowOwned(_) | Op::Parse(_)
    );
    let short_route = whole_text
        || matches!(op, Op::FromChar(_))
        || matches!(
            op,
            Op::ToLean { src: ToLeanSrc::Int { .. } | ToLeanSrc::Bool(_) | ToLeanSrc::Char(_) | ToLeanSrc::Str(_), .. }
        );
    if let Some(p) = post_t {
        if short_route && p.len <= INLINE {
            stats.relevant("C09");
            if !no_req || p.class != Storage::Inline {
                return Some(c.plain(
                    &["C09"],
                    "short_text_on_heap",
                    format!("{} bytes built via {}: requests {:?}, storage {}", p.len, op.name(), (c.d.alloc, c.d.realloc), p.class.name()),
                ));
            }
            if p.len == INLINE {
                stats.probe("full_inline_constructed");
            }
        }
        if whole_text && p.len > INLINE {
            stats.relevant("C09");
            if heap::COUNTS && counts_valid && (c.d.alloc != 1 || c.d.realloc != 0) || p.cap != p.len || p.class != Storage::Heap {
                return Some(c.plain(
                    &["C09"],
                    "long_text_not_exact",
                    format!("{} bytes via {}: {} alloc, {} realloc, capacity {}", p.len, op.name(), c.d.alloc, c.d.realloc, p.cap),
                ));
            }
        }
        let inline_edit = matches!(
            op,
            Op::Push { .. }
                | Op::PushStr { .. }
                | Op::Insert { .. }
                | Op::InsertStr { .. }
                | Op::Pop { .. }
                | Op::Remove { .. }
                | Op::Retain { .. }
                | Op::Truncate { .. }
                | Op::Clear
        );
        if inline_edit && pre_t.is_some_and(|s| s.class == Storage::Inline) && p.len <= INLINE {
            stats.relevant("C09");
            if !no_req || p.class != Storage::Inline {
                return Some(c.plain(
                    &["C09"],
                    "inline_edit_allocated",
                    format!("{} on an inline string (result {} bytes): requests {:?}, storage {}", op.name(), p.len, (c.d.alloc, c.d.realloc), p.class.name()),
                ));
            }
            if p.len == INLINE {
                stats.probe("inline_edit_to_full");
            }
        }
    }

    // ---- C10 -----------------------------------------------------------------------------
    {
        let origin = match op {
            Op::FromStatic { .. } => c.models[t].as_ref(),
            Op::Clone { src } | Op::CloneFrom { src } | Op::FromRef { src } | Op::ToLean { src: ToLeanSrc::Slot(src), .. } => c.pre_models[*src].as_ref(),
            Op::Pop { .. } | Op::Truncate { .. } | Op::Clear => c.pre_models[t].as_ref(),
            _ => None,
        };
        let static_of = origin.and_then(|m| m.static_of);
        // born from a static text longer than the inline limit: it keeps pointing at the caller's
        // bytes through clone / pop / truncate / clear, however short it gets
        let born_long = origin.is_some_and(|m| m.static_long);
        if let (Some(a), Some(p)) = (static_of, post_t) {
            stats.relevant("C10");
            if !no_req {
                return Some(c.plain(&["C10"], "static_allocated", format!("{} on static text made allocator requests {:?}", op.name(), c.d)));
            }
            if (p.len > INLINE || born_long) && p.ptr != arena.texts[a].ptr as usize {
                return Some(c.plain(
                    &["C10"],
                    "static_copied",
                    format!("{} bytes after {}: the handle no longer points at the caller's static bytes", p.len, op.name()),
                ));
            }
            if p.len > INLINE && !matches!(op, Op::FromStatic { .. }) {
                stats.probe("static_still_borrowed_after_op");
            }
        }
    }

    // ---- C11 -----------------------------------------------------------------------------
    if let Some(p) = post_t {
        match op {
            Op::WithCapacity { n, .. } => {
                stats.relevant("C11");
                if p.cap < *n {
                    return Some(c.v(c.ctx_tags(&["C11"]), "with_capacity_postcondition", format!("with_capacity({n}) gave capacity {}", p.cap)));
                }
            }
            Op::Reserve { n, .. } => {
                stats.relevant("C11");
                let exclusive = p.class == Storage::Inline || (p.class == Storage::Heap && (p.rc == Some(1) || !heap::HOOKED));
                if p.cap < p.len.saturating_add(*n) || !exclusive {
                    return Some(c.v(
                        c.ctx_tags(&["C11"]),
                        "reserve_postcondition",
                        format!("reserve({n}): len {} capacity {} storage {} rc {:?}", p.len, p.cap, p.class.name(), p.rc),
                    ));
                }
            }
            _ => {}
        }
        let added = match op {
            Op::Write { pieces, fail_at: None, panic_at: None } => Some(pieces.iter().map(|s| s.len()).sum()),
            Op::Extend { kind, items, hint: Hint::Honest, panic_at: None } if *kind != ItemKind::Lean => {
                Some(items.iter().map(|s| s.len()).sum())
            }
            _ => added_bytes(op),
        };
        if let (Some(add), Some(s)) = (added, pre_t) {
            let exclusive = s.class == Storage::Inline || (s.class == Storage::Heap && s.rc == Some(1));
            if exclusive && s.len + add <= s.cap && heap::HOOKED {
                stats.relevant("C11");
                if s.class == Storage::Heap && add > 0 {
                    stats.probe("append_within_heap_capacity");
                }
                if !no_req || p.ptr != s.ptr {
                    return Some(c.plain(
                        &["C11"],
                        "append_within_capacity_reallocated",
                        format!("{}: len {} + {} <= capacity {}, yet requests {:?}, moved: {}", op.name(), s.len, add, s.cap, (c.d.alloc, c.d.realloc), p.ptr != s.ptr),
                    ));
                }
            }
        }
    }

    // ---- C12 -----------------------------------------------------------------------------
    if let (Some(s), Some(p)) = (pre_t, post_t) {
        let additional = match op {
            Op::Reserve { n, .. } => Some(*n),
            _ => added_bytes(op),
        };
        if let Some(add) = additional {
            let need = s.len.saturating_add(add);
            if need > s.cap && p.class == Storage::Heap {
                let lower = s.len + s.len / 2;
                stats.relevant("C12");
                stats.probe(match s.class {
                    Storage::Inline => "growth_inline_to_heap",
                    Storage::Static => "growth_static_to_heap",
                    Storage::Heap if s.rc == Some(1) => "growth_heap_unique",
                    Storage::Heap => "growth_heap_shared",
                });
                if p.cap < lower || p.cap > lower.max(need) {
                    return Some(c.plain(
                        &["C12"],
                        "growth_bounds",
                        format!("{}: len {} + {} outgrew capacity {}; new capacity {} not in {}..={}", op.name(), s.len, add, s.cap, p.cap, lower, lower.max(need)),
                    ));
                }
            }
        }
    }

    // ---- C13 -----------------------------------------------------------------------------
    let shrink_m = match op {
        Op::ShrinkTo { n, .. } => Some(*n),
        Op::ShrinkToFit { .. } => Some(0),
        _ => None,
    };
    if let (Some(m), Some(s), Some(p)) = (shrink_m, pre_t, post_t) {
        stats.relevant("C13");
        let bad = if p.cap > s.cap.max(INLINE) {
            Some("capacity grew")
        } else if p.cap < m.min(s.cap) {
            Some("capacity fell below the requested minimum")
        } else if s.class == Storage::Heap && s.cap > s.len.max(m) {
            let want = s.len.max(m);
            if s.rc.is_some_and(|r| r > 1) {
                stats.probe("shrink_shared_heap");
            }
            if want > INLINE {
                if p.cap != want { Some("heap string did not land on max(len, m)") } else { None }
            } else if p.class != Storage::Inline {
                Some("heap string that fits inline was not inlined")
            } else {
                stats.probe("shrink_heap_to_inline");
                None
            }
        } else {
            None
        };
        if let Some(why) = bad {
            return Some(c.plain(
                &["C13"],
                "shrink_postcondition",
                format!("{why}: m {m}, len {}, capacity {} -> {} ({} -> {})", s.len, s.cap, p.cap, s.class.name(), p.class.name()),
            ));
        }
    }
    None
}

/// C17 (and C20's niche clause) over all live handles.
fn check_pairs(slots: &[Option<LeanString>], models: &[Option<Model>], deep: bool, stats: &mut RunStats) -> Option<(Vec<&'static str>, &'static str, String)> {
    use std::borrow::Cow;
    use std::hash::{Hash, Hasher};
    fn h<T: Hash + ?Sized>(x: &T) -> u64 {
        let mut s = std::collections::hash_map::DefaultHasher::new();
        x.hash(&mut s);
        s.finish()
    }
    let live: Vec<usize> = (0..slots.len()).filter(|i| slots[*i].is_some()).collect();
    for &i in &live {
        let a = slots[i].as_ref().unwrap();
        let ma = &models[i].as_ref().unwrap().text;
        // C20: Some(s) is never mistaken for None
        let o = std::hint::black_box(Some(a.clone()));
        if o.is_none() || o.as_ref().map(|x| x.as_bytes()) != Some(ma.as_bytes()) {
            return Some((vec!["C20"], "niche_collision", format!("Some(clone of slot {i}) reads back as None or differs")));
        }
        drop(o);
        let s: &str = ma.as_str();
        let string: String = ma.clone();
        let cow: Cow<'_, str> = Cow::Borrowed(s);
        let ok = *a == *s && *s == *a && *a == s && s == *a && *a == string && string == *a && *a == cow && cow == *a && h(a) == h(s);
        if !ok {
            return Some((vec!["C17"], "eq_hash_vs_str", format!("slot {i} disagrees with str/String/Cow on ==/hash for {s:?}")));
        }
        if deep {
            if format!("{a}") != format!("{s}") || format!("{a:?}") != format!("{s:?}") || format!("{a:>5}") != format!("{s:>5}") {
                return Some((vec!["C17"], "fmt_vs_str", format!("slot {i} prints differently from str for {s:?}")));
            }
            // every borrowed / converted view is the text and nothing else
            let mut ext = String::from("x");
            ext.extend([a.clone()]);
            let views_ok = String::from(a) == *s
                && String::from(a.clone()) == *s
                && AsRef::<str>::as_ref(a) == s
                && AsRef::<[u8]>::as_ref(a) == s.as_bytes()
                && std::borrow::Borrow::<str>::borrow(a) == s
                && &**a == s
                && ext[1..] == *s
                && a.chars().count() == s.chars().count()
                && a.is_empty() == s.is_empty();
            if !views_ok {
                return Some((vec!["C17", "C01"], "views_vs_str", format!("slot {i}: AsRef/Borrow/Deref/String::from/Extend disagree with the text {s:?}")));
            }
        }
        for &j in &live {
            if j < i {
                continue;
            }
            let b = slots[j].as_ref().unwrap();
            let mb = &models[j].as_ref().unwrap().text;
            let eq = ma == mb;
            if (*a == *b) != eq || (*b == *a) != eq || a.cmp(b) != ma.cmp(mb) || a.partial_cmp(b) != ma.partial_cmp(mb) || (eq && h(a) != h(b)) {
                return Some((
                    vec!["C17"],
                    "pair_eq_ord_hash",
                    format!("slots {i},{j} ({ma:?} vs {mb:?}): ==/cmp/hash disagree with str"),
                ));
            }
            if eq && i != j {
                let (ca, cb) = (classify(a), classify(b));
                if ca != cb || a.capacity() != b.capacity() {
                    stats.relevant("C17");
                    stats.probe("equal_text_different_representation");
                }
            }
        }
    }
    if deep && !live.is_empty() {
        let mut hm = std::collections::HashMap::new();
        let mut bm = std::collections::BTreeMap::new();
        for &i in &live {
            hm.insert(slots[i].as_ref().unwrap().clone(), i);
            bm.insert(slots[i].as_ref().unwrap().clone(), i);
        }
        for &i in &live {
            let s: &str = &models[i].as_ref().unwrap().text;
            let (x, y) = (hm.get(s), bm.get(s));
            let same = |k: Option<&usize>| k.is_some_and(|k| models[*k].as_ref().unwrap().text == s);
            if !same(x) || !same(y) {
                return Some((vec!["C17"], "map_lookup_by_str", format!("HashMap/BTreeMap keyed by LeanString: lookup of {s:?} failed")));
            }
        }
        let mut distinct: Vec<&str> = live.iter().map(|i| models[*i].as_ref().unwrap().text.as_str()).collect();
        distinct.sort_unstable();
        distinct.dedup();
        if hm.len() != distinct.len() || bm.len() != distinct.len() {
            return Some((vec!["C17"], "map_lookup_by_str", "maps keyed by LeanString hold a different number of keys than by str".into()));
        }
    }
    None
}

pub struct World {
    pub slots: Vec<Option<LeanString>>,
    pub models: Vec<Option<Model>>,
}

fn snap_all(slots: &[Option<LeanString>]) -> Vec<Option<Snap>> {
    slots.iter().map(|s| s.as_ref().map(snap)).collect()
}

fn outcome_tag(o: &Outcome) -> u8 {
    match o {
        Outcome::Returned(Ret::Unit) => 0,
        Outcome::Returned(Ret::Skipped) => 1,
        Outcome::Returned(Ret::Pop(_)) => 2,
        Outcome::Returned(Ret::Removed(_)) => 3,
        Outcome::Returned(Ret::ErrReserve) => 4,
        Outcome::Returned(Ret::ErrFmt) => 5,
        Outcome::Returned(Ret::ErrUtf8) => 6,
        Outcome::Returned(Ret::ErrUtf16) => 7,
        Outcome::PanicAlloc => 8,
        Outcome::PanicInjected => 9,
        Outcome::PanicOther(_) => 10,
    }
}

/// Run one case. `src` supplies steps; the executed steps are returned so a generated run can be
/// stored as an explicit replay.
pub fn run_case(slots_n: usize, heap_cfg: &super::heapcfg::HeapCfg, fail_run_req: &[u64], src: &mut dyn StepSource, opts: &RunOpts) -> RunReport {
    heap::begin_run(heap_cfg.clone());
    heap::set_fail_run_req(fail_run_req);
    let mut w = World { slots: (0..slots_n).map(|_| None).collect(), models: (0..slots_n).map(|_| None).collect() };
    let mut stats = RunStats::default();
    let mut digest = Digest::new();
    let mut fp = Digest::new();
    let mut executed = Vec::new();
    let mut violation = None;
    let mut first_other: Option<Violation> = None;
    let mut idx = 0usize;
    // blocks on which some handle was shortened while the buffer was shared (stale bytes behind it)
    let mut stale_blocks = std::collections::BTreeSet::new();
    let mut known_orphans = std::collections::BTreeSet::new();
    while let Some(mut st) = src.next(&w.models) {
        if st.slot >= slots_n {
            st.slot %= slots_n;
        }
        // slot references inside ops are kept in range too (minimisation may shrink `slots`)
        fix_slots(&mut st.op, slots_n);
        let pre = snap_all(&w.slots);
        let pre_models = w.models.clone();
        let c0 = heap::counters();
        heap::begin_step(&st.fail_req);
        let real = exec::apply_real(&mut w.slots, &st);
        let c1 = heap::counters();
        let callbacks = exec::CALLBACKS.with(|c| c.get());
        let cb_panics = exec::CALLBACK_PANICS.with(|c| c.get());
        let model = exec::apply_model(&mut w.models, &st);
        let post = snap_all(&w.slots);
        let d = delta(&c0, &c1);
        let post_models = w.models.clone();
        let ctx = Ctx { idx, st: &st, pre: &pre, post: &post, pre_models: &pre_models, models: &post_models, real: &real, model: &model, d, limit: heap_cfg.limit, cb_panics, own: opts.own.as_deref() };
        stats.steps += 1;
        add_counters(&mut stats.counters, &d);
        stats.callback_panics += cb_panics as u64;
        if let Some(n) = st.op.size_arg() {
            if n > heap_cfg.limit {
                stats.giant_sizes += 1;
            }
            if matches!(st.op, Op::Collect { .. } | Op::Extend { .. }) {
                stats.lying_hints += 1;
            }
        }
        if opts.record_counts {
            stats.requests_per_step.push((d.alloc + d.realloc) as u32);
            stats.callbacks_per_step.push(callbacks as u32);
        }
        probes(&ctx, &mut stats, &mut stale_blocks);
        let mut fix = None;
        let mut v = check_step(&ctx, &mut stats, &mut fix, &mut known_orphans);
        if let Some(m) = fix {
            w.models[st.slot] = m;
        }
        if v.is_none() {
            if let Some((props, inv, detail)) = check_pairs(&w.slots, &w.models, opts.deep_c17, &mut stats) {
                v = Some(ctx.plain(&props, inv, detail));
            } else {
                stats.relevant("C20");
            }
        }
        // trace digest (no addresses) and abstract fingerprint
        digest.str(st.op.name());
        digest.byte(outcome_tag(&real));
        for s in &post {
            match s {
                None => digest.byte(0xFF),
                Some(s) => {
                    digest.bytes(&s.bytes);
                    digest.u64(s.cap as u64);
                    digest.byte(s.class as u8);
                }
            }
        }
        for r in heap::step_log() {
            digest.byte(r.kind as u8);
            digest.u64(r.size as u64);
            digest.byte(r.ok as u8);
        }
        fp.str(st.op.name());
        fp.byte(outcome_tag(&real));
        if let Some(Some(s)) = pre.get(st.slot) {
            fp.byte(s.class as u8);
            fp.byte(s.rc.unwrap_or(0).min(3) as u8);
            fp.byte(if s.len <= INLINE { 0 } else { 1 });
        }
        fp.byte(d.faults().min(2) as u8);
        executed.push(st);
        idx += 1;
        if let Some(v) = v {
            let is_own = opts.own.as_deref().is_none_or(|p| v.has_prop(p));
            if is_own || !survivable(&v.invariant) {
                violation = Some(v);
                break;
            }
            if first_other.is_none() {
                first_other = Some(v);
            }
            // carry on from what the crate really holds, so that one divergence is not re-reported
            // at every later step
            for (slot, m) in w.slots.iter().zip(w.models.iter_mut()) {
                match slot {
                    None => *m = None,
                    Some(h) => {
                        if let Ok(t) = std::str::from_utf8(h.as_bytes()) {
                            match m {
                                Some(m) => {
                                    if m.text != t {
                                        m.text = t.to_string();
                                        m.static_of = None;
                                        m.static_long = false;
                    m.static_long = false;
                                    }
                                }
                                None => *m = Some(Model::new(t.to_string())),
                            }
                        }
                    }
                }
            }
        }
    }
    // end of run: everything is dropped, nothing may remain allocated
    let n_steps = executed.len();
    let dropped = std::panic::catch_unwind(std::panic::AssertUnwindSafe(|| {
        for s in w.slots.iter_mut() {
            *s = None;
        }
    }));
    let (live, hv) = heap::end_run();
    Arena::get().restore();
    if violation.is_none() {
        let mk = |inv: &str, detail: String| Violation {
            props: vec!["C03".into()],
            ctx: Vec::new(),
            invariant: inv.into(),
            step: n_steps,
            op: "end_of_run_drop".into(),
            target: "all".into(),
            fault: "none".into(),
            detail,
        };
        if dropped.is_err() {
            violation = Some(mk("panic_in_drop", "dropping the remaining handles panicked".into()));
        } else if let Some(hv) = hv {
            violation = Some(mk(hv.kind, hv.detail));
        } else if live != 0 {
            violation = Some(mk("leaked_block", format!("{live} block(s) still allocated after every handle was dropped")));
        } else if stats.counters.alloc > 0 && first_other.is_none() {
            stats.relevant("C03");
        }
        // an end-of-run finding that is not this check's own yields to an earlier noted one
        if let (Some(v), Some(o)) = (&violation, &first_other) {
            if !opts.own.as_deref().is_none_or(|p| v.has_prop(p)) {
                violation = Some(o.clone());
            }
        }
    }
    let violation = violation.or(first_other);
    RunReport { violation, stats, digest: digest.finish(), fingerprint: fp.finish(), executed }
}

/// Can the run go on after this violation (of another property)? Only if the heap and every handle
/// are still structurally sound: anything that may have written or freed where it must not is fatal.
fn survivable(invariant: &str) -> bool {
    matches!(
        invariant,
        // (a reference count that disagrees with the live handles is *not* survivable: the next
        // drop or write would free or overwrite memory under a reader)
        "leaked_block"
            | "text_mismatch"
            | "result_mismatch"
            | "index_panic_mismatch"
            | "panic_state_mismatch"
            | "other_handle_changed"
            | "spurious_alloc_failure"
            | "try_form_panicked"
            | "refusal_swallowed"
            | "failed_op_changed_target"
            | "failed_op_lost_capacity"
            | "rejected_index_had_effect"
            | "clone_allocated"
            | "clone_not_shared"
            | "clone_differs"
            | "short_text_on_heap"
            | "long_text_not_exact"
            | "inline_edit_allocated"
            | "static_allocated"
            | "static_copied"
            | "with_capacity_postcondition"
            | "reserve_postcondition"
            | "append_within_capacity_reallocated"
            | "growth_bounds"
            | "shrink_postcondition"
            | "eq_hash_vs_str"
            | "fmt_vs_str"
            | "views_vs_str"
            | "pair_eq_ord_hash"
            | "map_lookup_by_str"
    )
}

fn fix_slots(op: &mut Op, n: usize) {
    match op {
        Op::Clone { src } | Op::CloneFrom { src } | Op::FromRef { src } | Op::ToLean { src: ToLeanSrc::Slot(src), .. } => *src %= n,
        Op::ExtendSlots { srcs } => srcs.iter_mut().for_each(|s| *s %= n),
        _ => {}
    }
}

/// "This rare condition was hit" counters.
fn probes(c: &Ctx<'_>, stats: &mut RunStats, stale: &mut std::collections::BTreeSet<usize>) {
    let t = c.st.slot;
    let (Some(Some(a)), Some(Some(b))) = (c.pre.get(t), c.post.get(t)) else { return };
    if !matches!(c.real, Outcome::Returned(_)) {
        if c.d.failed_realloc > 0 {
            stats.probe("realloc_failure_seen");
        }
        if c.d.failed_alloc > 0 && a.class == Storage::Heap && a.rc.is_some_and(|r| r > 1) {
            stats.probe("alloc_failure_in_shared_copy_path");
        }
        return;
    }
    match (a.class, b.class) {
        (Storage::Inline, Storage::Heap) => stats.probe("inline_to_heap"),
        (Storage::Heap, Storage::Inline) => stats.probe("heap_to_inline"),
        (Storage::Static, Storage::Inline) => stats.probe("static_to_inline"),
        (Storage::Static, Storage::Heap) => stats.probe("static_to_heap"),
        _ => {}
    }
    if a.class == Storage::Heap && a.rc == Some(1) && b.class == Storage::Heap && b.ptr == a.ptr && b.len > a.len {
        stats.probe("in_place_write_by_sole_owner");
        // the compound ordering of C01/C02: shortened while shared, co-owners gone, then written
        // in place over the stale bytes
        if let Some((id, _)) = a.block {
            if stale.contains(&id) {
                stats.probe("in_place_write_over_stale_bytes_after_shared_truncate");
            }
        }
    }
    if matches!(c.st.op, Op::Truncate { .. } | Op::Pop { .. }) && a.class == Storage::Heap && a.rc.is_some_and(|r| r > 1) && b.len < a.len {
        stats.probe("truncate_while_shared");
        if let Some((id, _)) = a.block {
            stale.insert(id);
        }
    }
    if matches!(c.st.op, Op::CloneFrom { .. }) && a.class == Storage::Heap && a.rc == Some(1) {
        stats.probe("clone_from_onto_last_owner");
    }
    if c.d.realloc_inplace > 0 {
        stats.probe("realloc_in_place");
    }
    if c.d.realloc_moved > 0 {
        stats.probe("realloc_moved");
    }
}
