//! The operation DSL: every public way to create, copy, mutate and drop a `LeanString`, as data.
//! A `Case` (configuration + explicit step list) is what replay files contain.

use serde::{Deserialize, Serialize};

#[derive(Clone, Copy, Debug, PartialEq, Eq, Serialize, Deserialize)]
pub enum ItemKind {
    Char,
    RefChar,
    Str,
    BoxStr,
    Cow,
    String,
    Lean,
}

pub const ITEM_KINDS: [ItemKind; 7] =
    [ItemKind::Char, ItemKind::RefChar, ItemKind::Str, ItemKind::BoxStr, ItemKind::Cow, ItemKind::String, ItemKind::Lean];

/// What `size_hint().0` reports (fault kind F6 when it lies).
#[derive(Clone, Copy, Debug, PartialEq, Eq, Serialize, Deserialize)]
pub enum Hint {
    Honest,
    Val(usize),
}

#[derive(Clone, Copy, Debug, PartialEq, Eq, Serialize, Deserialize)]
pub enum IntTy {
    I8,
    U8,
    I16,
    U16,
    I32,
    U32,
    I64,
    U64,
    I128,
    U128,
    Isize,
    Usize,
}

pub const INT_TYS: [IntTy; 12] = [
    IntTy::I8,
    IntTy::U8,
    IntTy::I16,
    IntTy::U16,
    IntTy::I32,
    IntTy::U32,
    IntTy::I64,
    IntTy::U64,
    IntTy::I128,
    IntTy::U128,
    IntTy::Isize,
    IntTy::Usize,
];

#[derive(Clone, Debug, PartialEq, Serialize, Deserialize)]
pub enum ToLeanSrc {
    /// 128-bit pattern (hi, lo) truncated to the type; `nonzero` uses the NonZero form
    Int { ty: IntTy, hi: u64, lo: u64, nonzero: bool },
    Bool(bool),
    Char(char),
    Str(String),
    /// `to_lean_string` of the handle in slot `src`
    Slot(usize),
    /// a user `Display` writing `pieces` one `write_str` at a time
    Display { pieces: Vec<String>, fail_at: Option<usize>, panic_at: Option<usize> },
}

#[derive(Clone, Debug, PartialEq, Serialize, Deserialize)]
pub enum Op {
    // ---- constructors / assignments into the step's slot (old value dropped afterwards) ----
    New,
    FromStr(String),
    FromString(String),
    FromRefString(String),
    FromBoxStr(String),
    FromCowBorrowed(String),
    FromCowOwned(String),
    FromChar(char),
    Parse(String),
    FromStatic { arena: usize, len: usize },
    WithCapacity { n: usize, try_: bool },
    FromUtf8(Vec<u8>),
    FromUtf8Lossy(Vec<u8>),
    FromUtf16(Vec<u16>),
    FromUtf16Lossy(Vec<u16>),
    Collect { kind: ItemKind, items: Vec<String>, hint: Hint, panic_at: Option<usize> },
    ToLean { src: ToLeanSrc, try_: bool },
    Clone { src: usize },
    CloneFrom { src: usize },
    FromRef { src: usize },
    Take,
    Drop,
    // ---- mutators of the step's slot ----
    Push { ch: char, try_: bool },
    PushStr { s: String, try_: bool },
    Pop { try_: bool },
    Remove { idx: usize, try_: bool },
    Insert { idx: usize, ch: char, try_: bool },
    InsertStr { idx: usize, s: String, try_: bool },
    Truncate { len: usize, try_: bool },
    Clear,
    Retain { mask: u64, panic_at: Option<usize>, try_: bool },
    Reserve { n: usize, try_: bool },
    ShrinkTo { n: usize, try_: bool },
    ShrinkToFit { try_: bool },
    Extend { kind: ItemKind, items: Vec<String>, hint: Hint, panic_at: Option<usize> },
    /// `extend` with clones of the handles in `srcs` (moved into the iterator)
    ExtendSlots { srcs: Vec<usize> },
    Add(String),
    AddAssign(String),
    Write { pieces: Vec<String>, fail_at: Option<usize>, panic_at: Option<usize> },
}

#[derive(Clone, Copy, Debug, PartialEq, Eq, Hash, PartialOrd, Ord)]
pub enum OpFamily {
    Construct,
    ConstructSized,
    Decode,
    Collect,
    ToLean,
    CloneLike,
    Drop,
    Append,
    Pop,
    Remove,
    Insert,
    Truncate,
    Clear,
    Retain,
    Reserve,
    Shrink,
    Extend,
    Write,
}

impl Op {
    pub fn name(&self) -> &'static str {
        match self {
            Op::New => "new",
            Op::FromStr(_) => "from_str_slice",
            Op::FromString(_) => "from_string",
            Op::FromRefString(_) => "from_ref_string",
            Op::FromBoxStr(_) => "from_box_str",
            Op::FromCowBorrowed(_) => "from_cow_borrowed",
            Op::FromCowOwned(_) => "from_cow_owned",
            Op::FromChar(_) => "from_char",
            Op::Parse(_) => "parse",
            Op::FromStatic { .. } => "from_static_str",
            Op::WithCapacity { try_: false, .. } => "with_capacity",
            Op::WithCapacity { try_: true, .. } => "try_with_capacity",
            Op::FromUtf8(_) => "from_utf8",
            Op::FromUtf8Lossy(_) => "from_utf8_lossy",
            Op::FromUtf16(_) => "from_utf16",
            Op::FromUtf16Lossy(_) => "from_utf16_lossy",
            Op::Collect { .. } => "collect",
            Op::ToLean { try_: false, .. } => "to_lean_string",
            Op::ToLean { try_: true, .. } => "try_to_lean_string",
            Op::Clone { .. } => "clone",
            Op::CloneFrom { .. } => "clone_from",
            Op::FromRef { .. } => "from_ref_lean",
            Op::Take => "take",
            Op::Drop => "drop",
            Op::Push { try_: false, .. } => "push",
            Op::Push { try_: true, .. } => "try_push",
            Op::PushStr { try_: false, .. } => "push_str",
            Op::PushStr { try_: true, .. } => "try_push_str",
            Op::Pop { try_: false } => "pop",
            Op::Pop { try_: true } => "try_pop",
            Op::Remove { try_: false, .. } => "remove",
            Op::Remove { try_: true, .. } => "try_remove",
            Op::Insert { try_: false, .. } => "insert",
            Op::Insert { try_: true, .. } => "try_insert",
            Op::InsertStr { try_: false, .. } => "insert_str",
            Op::InsertStr { try_: true, .. } => "try_insert_str",
            Op::Truncate { try_: false, .. } => "truncate",
            Op::Truncate { try_: true, .. } => "try_truncate",
            Op::Clear => "clear",
            Op::Retain { try_: false, .. } => "retain",
            Op::Retain { try_: true, .. } => "try_retain",
            Op::Reserve { try_: false, .. } => "reserve",
            Op::Reserve { try_: true, .. } => "try_reserve",
            Op::ShrinkTo { try_: false, .. } => "shrink_to",
            Op::ShrinkTo { try_: true, .. } => "try_shrink_to",
            Op::ShrinkToFit { try_: false } => "shrink_to_fit",
            Op::ShrinkToFit { try_: true } => "try_shrink_to_fit",
            Op::Extend { .. } => "extend",
            Op::ExtendSlots { .. } => "extend_slots",
            Op::Add(_) => "add",
            Op::AddAssign(_) => "add_assign",
            Op::Write { .. } => "write",
        }
    }

    pub fn family(&self) -> OpFamily {
        use OpFamily::*;
        match self {
            Op::New
            | Op::FromStr(_)
            | Op::FromString(_)
            | Op::FromRefString(_)
            | Op::FromBoxStr(_)
            | Op::FromCowBorrowed(_)
            | Op::FromCowOwned(_)
            | Op::FromChar(_)
            | Op::Parse(_)
            | Op::FromStatic { .. } => Construct,
            Op::WithCapacity { .. } => ConstructSized,
            Op::FromUtf8(_) | Op::FromUtf8Lossy(_) | Op::FromUtf16(_) | Op::FromUtf16Lossy(_) => Decode,
            Op::Collect { .. } => Collect,
            Op::ToLean { src: ToLeanSrc::Slot(_), .. } => CloneLike,
            Op::ToLean { .. } => ToLean,
            Op::Clone { .. } | Op::CloneFrom { .. } | Op::FromRef { .. } => CloneLike,
            Op::Take | Op::Drop => Drop,
            Op::Push { .. } | Op::PushStr { .. } | Op::Add(_) | Op::AddAssign(_) => Append,
            Op::Pop { .. } => Pop,
            Op::Remove { .. } => Remove,
            Op::Insert { .. } | Op::InsertStr { .. } => Insert,
            Op::Truncate { .. } => Truncate,
            Op::Clear => Clear,
            Op::Retain { .. } => Retain,
            Op::Reserve { .. } => Reserve,
            Op::ShrinkTo { .. } | Op::ShrinkToFit { .. } => Shrink,
            Op::Extend { .. } | Op::ExtendSlots { .. } => Extend,
            Op::Write { .. } => Write,
        }
    }

    /// Does the op put a (new) value into the slot rather than mutate the one that is there?
    pub fn is_constructor(&self) -> bool {
        matches!(
            self.family(),
            OpFamily::Construct | OpFamily::ConstructSized | OpFamily::Decode | OpFamily::Collect | OpFamily::ToLean
        ) || matches!(self, Op::Clone { .. } | Op::FromRef { .. } | Op::ToLean { .. })
    }

    pub fn is_try(&self) -> bool {
        match self {
            Op::WithCapacity { try_, .. }
            | Op::ToLean { try_, .. }
            | Op::Push { try_, .. }
            | Op::PushStr { try_, .. }
            | Op::Pop { try_ }
            | Op::Remove { try_, .. }
            | Op::Insert { try_, .. }
            | Op::InsertStr { try_, .. }
            | Op::Truncate { try_, .. }
            | Op::Retain { try_, .. }
            | Op::Reserve { try_, .. }
            | Op::ShrinkTo { try_, .. }
            | Op::ShrinkToFit { try_ } => *try_,
            Op::Parse(_) => true,
            _ => false,
        }
    }

    /// Ops that append a sequence of items and may legitimately stop between two of them when
    /// the allocator refuses memory or a callback panics.
    pub fn is_item_sequence(&self) -> bool {
        matches!(self, Op::Extend { .. } | Op::ExtendSlots { .. } | Op::Collect { .. } | Op::Write { .. })
            || matches!(self, Op::ToLean { src: ToLeanSrc::Display { .. }, .. })
            || matches!(self, Op::FromUtf8Lossy(_) | Op::FromUtf16(_) | Op::FromUtf16Lossy(_))
    }

    /// The size argument of the op, if it has one (C06).
    pub fn size_arg(&self) -> Option<usize> {
        match self {
            Op::WithCapacity { n, .. } | Op::Reserve { n, .. } | Op::ShrinkTo { n, .. } => Some(*n),
            Op::Collect { hint: Hint::Val(v), .. } | Op::Extend { hint: Hint::Val(v), .. } => Some(*v),
            _ => None,
        }
    }

    pub fn callback_panic_at(&self) -> Option<usize> {
        match self {
            Op::Collect { panic_at, .. }
            | Op::Extend { panic_at, .. }
            | Op::Retain { panic_at, .. }
            | Op::Write { panic_at, .. }
            | Op::ToLean { src: ToLeanSrc::Display { panic_at, .. }, .. } => *panic_at,
            _ => None,
        }
    }

    pub fn set_callback_panic_at(&mut self, k: Option<usize>) {
        match self {
            Op::Collect { panic_at, .. }
            | Op::Extend { panic_at, .. }
            | Op::Retain { panic_at, .. }
            | Op::Write { panic_at, .. }
            | Op::ToLean { src: ToLeanSrc::Display { panic_at, .. }, .. } => *panic_at = k,
            _ => {}
        }
    }
}

#[derive(Clone, Debug, PartialEq, Serialize, Deserialize)]
pub struct Step {
    pub slot: usize,
    pub op: Op,
    /// step-relative ordinals of alloc/realloc requests that return null (F1/F2)
    #[serde(default, skip_serializing_if = "Vec::is_empty")]
    pub fail_req: Vec<usize>,
}

impl Step {
    pub fn new(slot: usize, op: Op) -> Self {
        Step { slot, op, fail_req: Vec::new() }
    }
}

#[derive(Clone, Debug, Serialize, Deserialize)]
pub struct Case {
    pub slots: usize,
    pub heap: super::heapcfg::HeapCfg,
    pub steps: Vec<Step>,
    /// run-relative ordinals of alloc/realloc requests that return null (C05 sweep)
    #[serde(default, skip_serializing_if = "Vec::is_empty")]
    pub fail_run_req: Vec<u64>,
}

/// What a call returned, comparable between the crate and the model.
#[derive(Clone, Debug, PartialEq, Eq)]
pub enum Ret {
    Unit,
    Skipped,
    Pop(Option<char>),
    Removed(char),
    ErrReserve,
    ErrFmt,
    ErrUtf8,
    ErrUtf16,
}

#[derive(Clone, Debug, PartialEq, Eq)]
pub enum Outcome {
    Returned(Ret),
    /// panicked with exactly `ReserveError`'s message
    PanicAlloc,
    /// the injected callback panic came out
    PanicInjected,
    PanicOther(String),
}

pub const INJECTED_PANIC: &str = "injected callback panic";
pub const ALLOC_PANIC: &str = "Cannot allocate memory to hold LeanString";

pub fn classify_panic(p: Box<dyn std::any::Any + Send>) -> Outcome {
    let msg = if let Some(s) = p.downcast_ref::<&'static str>() {
        s.to_string()
    } else if let Some(s) = p.downcast_ref::<String>() {
        s.clone()
    } else {
        "<non-string panic payload>".to_string()
    };
    if msg == INJECTED_PANIC {
        Outcome::PanicInjected
    } else if msg == ALLOC_PANIC {
        Outcome::PanicAlloc
    } else {
        Outcome::PanicOther(msg)
    }
}
