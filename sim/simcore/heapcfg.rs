//! Allocator configuration and counters, shared by the hooked and the unhooked builds.

#[derive(Clone, Copy, Debug, PartialEq, Eq, serde::Serialize, serde::Deserialize)]
pub enum ReallocPolicy {
    AlwaysMove,
    InPlaceWhenFits,
    Random,
}

#[derive(Clone, Debug, serde::Serialize, serde::Deserialize)]
pub struct HeapCfg {
    /// Requests above this many bytes are refused (fault kind F3).
    pub limit: usize,
    pub policy: ReallocPolicy,
    /// Extra room kept behind each block so that realloc *can* stay in place.
    pub slack: usize,
    pub rng_seed: u64,
}

impl Default for HeapCfg {
    fn default() -> Self {
        HeapCfg { limit: 1 << 26, policy: ReallocPolicy::AlwaysMove, slack: 0, rng_seed: 1 }
    }
}

#[derive(Clone, Copy, Debug, Default, PartialEq, Eq)]
pub struct Counters {
    pub alloc: u64,
    pub realloc: u64,
    pub dealloc: u64,
    /// requests answered with null because a fault was planned (F1/F2)
    pub failed_alloc: u64,
    pub failed_realloc: u64,
    /// requests answered with null because they exceeded the limit (F3)
    pub refused: u64,
    pub realloc_moved: u64,
    pub realloc_inplace: u64,
    pub bytes_moved: u64,
}

impl Counters {
    /// alloc + realloc requests, successful or not
    pub fn requests(&self) -> u64 {
        self.alloc + self.realloc
    }
    pub fn faults(&self) -> u64 {
        self.failed_alloc + self.failed_realloc + self.refused
    }
}

