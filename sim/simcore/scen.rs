//! Prepared storage states and the enumerated grids (C06, C07, C08, C09, C13). Everything is
//! expressed as explicit steps, so grid cases replay and minimise like any other case.

use super::genr::{INLINE, size_grid, text_of_len};
use super::heapcfg::{HeapCfg, ReallocPolicy};
use super::ops::*;
use super::rng::Rng;

/// Storage state of the target (slot 0); sharers live in slots 1 and 2.
#[derive(Clone, Copy, Debug, PartialEq, Eq)]
pub enum State {
    InlineEmpty,
    InlinePartial,
    InlineFull,
    StaticLong,
    StaticTruncShort,
    StaticShared,
    HeapExact,
    HeapSlack,
    HeapShared2,
    HeapShared3,
    /// shared, the target is the shorter handle
    HeapSharedTargetShort,
    /// shared, the other handle was truncated (the target is the longer one)
    HeapSharedOtherShort,
    /// was shared and truncated; the co-owner is gone, stale bytes lie behind the end
    HeapFormerlyShared,
}

pub const STATES: [State; 13] = [
    State::InlineEmpty,
    State::InlinePartial,
    State::InlineFull,
    State::StaticLong,
    State::StaticTruncShort,
    State::StaticShared,
    State::HeapExact,
    State::HeapSlack,
    State::HeapShared2,
    State::HeapShared3,
    State::HeapSharedTargetShort,
    State::HeapSharedOtherShort,
    State::HeapFormerlyShared,
];

impl State {
    pub fn is_heap(&self) -> bool {
        !matches!(
            self,
            State::InlineEmpty | State::InlinePartial | State::InlineFull | State::StaticLong | State::StaticTruncShort | State::StaticShared
        )
    }
}

fn cut(text: &str, n: usize) -> usize {
    let mut n = n.min(text.len());
    while !text.is_char_boundary(n) {
        n -= 1;
    }
    n
}

/// Steps that put slot 0 into `state`. `text` is used for inline/heap states (cut or padded to
/// fit), `arena` for the static ones. Returns the steps and the text slot 0 then holds.
pub fn prep(state: State, text: &str, arena: usize) -> (Vec<Step>, String) {
    let a = super::exec::Arena::get();
    let mut long = text.to_string();
    while long.len() <= INLINE + 1 {
        long.push_str("0123456789");
    }
    let s = |slot: usize, op: Op| Step::new(slot, op);
    match state {
        State::InlineEmpty => (vec![s(0, Op::New)], String::new()),
        State::InlinePartial => {
            let t = text[..cut(text, INLINE - 1)].to_string();
            (vec![s(0, Op::FromStr(t.clone()))], t)
        }
        State::InlineFull => {
            let mut t = text[..cut(text, INLINE)].to_string();
            while t.len() < INLINE {
                t.insert(0, 'p');
            }
            (vec![s(0, Op::FromStr(t.clone()))], t)
        }
        State::StaticLong => {
            let t = a.model_text(arena, usize::MAX);
            (vec![s(0, Op::FromStatic { arena, len: usize::MAX })], t)
        }
        State::StaticTruncShort => {
            let full = a.model_text(arena, usize::MAX);
            let n = cut(&full, 9);
            (vec![s(0, Op::FromStatic { arena, len: usize::MAX }), s(0, Op::Truncate { len: n, try_: false })], full[..n].to_string())
        }
        State::StaticShared => {
            let t = a.model_text(arena, usize::MAX);
            (vec![s(0, Op::FromStatic { arena, len: usize::MAX }), s(1, Op::Clone { src: 0 })], t)
        }
        State::HeapExact => (vec![s(0, Op::FromStr(long.clone()))], long),
        State::HeapSlack => (vec![s(0, Op::WithCapacity { n: long.len() * 2 + 7, try_: false }), s(0, Op::PushStr { s: long.clone(), try_: false })], long),
        State::HeapShared2 => (vec![s(0, Op::FromStr(long.clone())), s(1, Op::Clone { src: 0 })], long),
        State::HeapShared3 => (vec![s(0, Op::FromStr(long.clone())), s(1, Op::Clone { src: 0 }), s(2, Op::Clone { src: 1 })], long),
        State::HeapSharedTargetShort => {
            let n = cut(&long, long.len() / 2);
            (vec![s(1, Op::FromStr(long.clone())), s(0, Op::Clone { src: 1 }), s(0, Op::Truncate { len: n, try_: false })], long[..n].to_string())
        }
        State::HeapSharedOtherShort => {
            let n = cut(&long, 3);
            (vec![s(0, Op::FromStr(long.clone())), s(1, Op::Clone { src: 0 }), s(1, Op::Truncate { len: n, try_: false })], long)
        }
        State::HeapFormerlyShared => {
            let n = cut(&long, long.len() - 5);
            (
                vec![s(1, Op::FromStr(long.clone())), s(0, Op::Clone { src: 1 }), s(0, Op::Truncate { len: n, try_: false }), s(1, Op::Drop)],
                long[..n].to_string(),
            )
        }
    }
}

/// Follow-up steps proving that everything is still usable after the operation under test.
pub fn epilogue() -> Vec<Step> {
    vec![
        Step::new(0, Op::Push { ch: 'x', try_: false }),
        Step::new(1, Op::Push { ch: 'y', try_: false }),
        Step::new(2, Op::Pop { try_: false }),
        Step::new(0, Op::Clone { src: 1 }),
        Step::new(1, Op::Drop),
    ]
}

fn grid_heap(limit: usize, variant: usize) -> HeapCfg {
    HeapCfg {
        limit,
        policy: [ReallocPolicy::AlwaysMove, ReallocPolicy::InPlaceWhenFits][variant % 2],
        slack: [0usize, 64][(variant / 2) % 2],
        rng_seed: 7,
    }
}

pub fn case_of(steps: Vec<Step>, heap: HeapCfg) -> Case {
    Case { slots: 3, heap, steps, fail_run_req: Vec::new() }
}

/// Catalogue of texts mixing character widths (C07, C09): for each length 0..=max several
/// variants whose *final* byte falls in each UTF-8 class.
pub fn catalogue(max_len: usize) -> Vec<String> {
    let mut out = Vec::new();
    let tails = ["", "é", "€", "🦀", "\u{7FF}", "\u{FFFF}", "\u{10FFFF}", "\u{80}"];
    for len in 0..=max_len {
        for (v, tail) in tails.iter().enumerate() {
            if tail.len() > len {
                continue;
            }
            let mut rng = Rng::new(0xCA7A_0000 + (len * 16 + v) as u64);
            let mixed = v % 2 == 1 || tail.is_empty() && len % 3 == 0;
            let mut s = text_of_len(&mut rng, len - tail.len(), mixed);
            s.push_str(tail);
            debug_assert_eq!(s.len(), len);
            out.push(s);
        }
    }
    out.sort();
    out.dedup();
    out
}

// ------------------------------------------------------------------------------------------------
// C06: every grid size x entry point x storage state

#[derive(Clone, Copy, Debug)]
pub enum SizeEntry {
    WithCapacity(bool),
    Reserve(bool),
    ShrinkTo(bool),
    ExtendHint(ItemKind),
    CollectHint(ItemKind),
}

pub const SIZE_ENTRIES: [SizeEntry; 10] = [
    SizeEntry::WithCapacity(true),
    SizeEntry::WithCapacity(false),
    SizeEntry::Reserve(true),
    SizeEntry::Reserve(false),
    SizeEntry::ShrinkTo(true),
    SizeEntry::ShrinkTo(false),
    SizeEntry::ExtendHint(ItemKind::Char),
    SizeEntry::ExtendHint(ItemKind::Str),
    SizeEntry::CollectHint(ItemKind::Char),
    SizeEntry::CollectHint(ItemKind::String),
];

pub fn c06_sizes() -> &'static [usize] {
    size_grid()
}

pub fn c06_count() -> usize {
    // each size is used as is and minus the current length
    c06_sizes().len() * 2 * SIZE_ENTRIES.len() * STATES.len()
}

pub fn c06_case(index: usize) -> Option<Case> {
    let sizes = c06_sizes();
    if index >= c06_count() {
        return None;
    }
    let state = STATES[index % STATES.len()];
    let r = index / STATES.len();
    let entry = SIZE_ENTRIES[r % SIZE_ENTRIES.len()];
    let r = r / SIZE_ENTRIES.len();
    let minus_len = r % 2 == 1;
    let v0 = sizes[r / 2];
    let (mut steps, text) = prep(state, "héllo wörld, ça va? 🦀", index % super::exec::ARENA_TEXTS);
    let v = if minus_len { v0.wrapping_sub(text.len()) } else { v0 };
    let items = |k: ItemKind| match k {
        ItemKind::Char | ItemKind::RefChar => vec!["a".to_string(), "€".to_string(), "z".to_string()],
        _ => vec!["ab".to_string(), "".to_string(), "🦀c".to_string()],
    };
    let op = match entry {
        SizeEntry::WithCapacity(try_) => Op::WithCapacity { n: v, try_ },
        SizeEntry::Reserve(try_) => Op::Reserve { n: v, try_ },
        SizeEntry::ShrinkTo(try_) => Op::ShrinkTo { n: v, try_ },
        SizeEntry::ExtendHint(k) => Op::Extend { kind: k, items: items(k), hint: Hint::Val(v), panic_at: None },
        SizeEntry::CollectHint(k) => Op::Collect { kind: k, items: items(k), hint: Hint::Val(v), panic_at: None },
    };
    steps.push(Step::new(0, op));
    steps.extend(epilogue());
    Some(case_of(steps, grid_heap(1 << 20, index / 7)))
}

// ------------------------------------------------------------------------------------------------
// C07: every byte index x text x storage state x entry point

pub const INDEX_ENTRIES: usize = 8;

fn index_op(entry: usize, idx: usize) -> Op {
    let try_ = entry % 2 == 1;
    match entry / 2 {
        0 => Op::Insert { idx, ch: ['x', 'é', '€', '🦀'][idx % 4], try_ },
        1 => Op::InsertStr { idx, s: ["", "q", "ß€", "0123456789abcdefXYZ"][idx % 4].to_string(), try_ },
        2 => Op::Remove { idx, try_ },
        _ => Op::Truncate { len: idx, try_ },
    }
}

/// (state, text source) pairs for the C07 grid; static states iterate the arena.
fn c07_subjects() -> Vec<(State, String, usize)> {
    let mut v = Vec::new();
    let cat = catalogue(40);
    for state in STATES {
        match state {
            State::StaticLong | State::StaticTruncShort | State::StaticShared => {
                for a in 0..super::exec::ARENA_TEXTS {
                    // long arena texts make the index sweep large for no gain
                    if super::exec::Arena::get().texts[a].len <= 64 {
                        v.push((state, String::new(), a));
                    }
                }
            }
            State::InlineEmpty => v.push((state, String::new(), 0)),
            State::InlinePartial => {
                for t in cat.iter().filter(|t| !t.is_empty() && t.len() < INLINE).step_by(3) {
                    v.push((state, t.clone(), 0));
                }
            }
            State::InlineFull => {
                for t in cat.iter().filter(|t| t.len() == INLINE) {
                    v.push((state, t.clone(), 0));
                }
            }
            _ => {
                for t in cat.iter().filter(|t| t.len() > INLINE + 1).step_by(5) {
                    v.push((state, t.clone(), 0));
                }
            }
        }
    }
    v
}

pub struct C07Grid {
    subjects: Vec<(State, String, usize)>,
    /// prefix sums of (len+3) * INDEX_ENTRIES per subject
    starts: Vec<usize>,
}

impl C07Grid {
    pub fn new() -> Self {
        let subjects = c07_subjects();
        let mut starts = vec![0usize];
        for (st, t, a) in &subjects {
            let (_, text) = prep(*st, t, *a);
            starts.push(starts.last().unwrap() + (text.len() + 3) * INDEX_ENTRIES);
        }
        C07Grid { subjects, starts }
    }
    pub fn count(&self) -> usize {
        *self.starts.last().unwrap()
    }
    pub fn case(&self, index: usize) -> Option<Case> {
        if index >= self.count() {
            return None;
        }
        let k = match self.starts.binary_search(&index) {
            Ok(k) => k,
            Err(k) => k - 1,
        };
        let (state, t, a) = &self.subjects[k];
        let r = index - self.starts[k];
        let (mut steps, _text) = prep(*state, t, *a);
        steps.push(Step::new(0, index_op(r % INDEX_ENTRIES, r / INDEX_ENTRIES)));
        steps.extend(epilogue());
        Some(case_of(steps, grid_heap(1 << 26, index)))
    }
}

// ------------------------------------------------------------------------------------------------
// C09: every construction route x every length 0..=40 x final-byte classes; integers at the
// digit-count boundaries

fn route(r: usize, t: &str) -> Option<Op> {
    Some(match r {
        0 => Op::FromStr(t.into()),
        1 => Op::FromString(t.into()),
        2 => Op::FromRefString(t.into()),
        3 => Op::FromBoxStr(t.into()),
        4 => Op::FromCowBorrowed(t.into()),
        5 => Op::FromCowOwned(t.into()),
        6 => Op::Parse(t.into()),
        7 => Op::ToLean { src: ToLeanSrc::Str(t.into()), try_: false },
        8 => Op::ToLean { src: ToLeanSrc::Str(t.into()), try_: true },
        9 => {
            let mut cs = t.chars();
            let c = cs.next()?;
            if cs.next().is_some() {
                return None;
            }
            Op::FromChar(c)
        }
        _ => {
            let mut cs = t.chars();
            let c = cs.next()?;
            if cs.next().is_some() {
                return None;
            }
            Op::ToLean { src: ToLeanSrc::Char(c), try_: false }
        }
    })
}

pub fn c09_cases() -> Vec<Case> {
    let mut out = Vec::new();
    let cat = catalogue(40);
    for t in &cat {
        for r in 0..11 {
            if let Some(op) = route(r, t) {
                // build it into an empty slot and over a live heap handle (reassignment)
                let mut steps = vec![Step::new(0, op.clone())];
                steps.push(Step::new(1, Op::FromStr("a heap string that is replaced next".into())));
                steps.push(Step::new(1, op));
                steps.push(Step::new(0, Op::Push { ch: 'x', try_: false }));
                out.push(case_of(steps, grid_heap(1 << 26, out.len())));
            }
        }
    }
    // every possible final byte of a full inline string (C20: no reachable tag byte may collide
    // with the niche the compiler uses for Option::None; C09: still inline, no allocation)
    for b in 0u8..=0xBF {
        let tail: char = if b < 0x80 { b as char } else { char::from_u32(0x80 + (b & 0x3F) as u32).unwrap() };
        for full in [INLINE, INLINE - 1, INLINE + 1] {
            let mut t = "f".repeat(full.saturating_sub(tail.len_utf8()));
            t.push(tail);
            for r in [0usize, 1, 6] {
                if let Some(op) = route(r, &t) {
                    let steps = vec![
                        Step::new(0, op),
                        Step::new(1, Op::Clone { src: 0 }),
                        Step::new(1, Op::Pop { try_: false }),
                        Step::new(1, Op::Push { ch: tail, try_: false }),
                    ];
                    out.push(case_of(steps, grid_heap(1 << 26, out.len())));
                }
            }
            // the same final byte reached by editing instead of constructing
            let head = "f".repeat(full.saturating_sub(tail.len_utf8()));
            let steps = vec![
                Step::new(0, Op::FromStr(head.clone())),
                Step::new(0, Op::Push { ch: tail, try_: false }),
                Step::new(1, Op::Clone { src: 0 }),
                Step::new(2, Op::FromStr(head)),
                Step::new(2, Op::InsertStr { idx: full.saturating_sub(tail.len_utf8()), s: tail.to_string(), try_: true }),
                Step::new(0, Op::Pop { try_: false }),
            ];
            out.push(case_of(steps, grid_heap(1 << 26, out.len())));
        }
    }
    // integers: every type at every power of ten +-1, extremes, both forms
    let mut ints: Vec<(u64, u64)> = vec![(0, 0), (0, 1), (u64::MAX, u64::MAX), (0, u64::MAX), (u64::MAX >> 1, u64::MAX), (1u64 << 63, 0)];
    let mut p: u128 = 1;
    for _ in 0..39 {
        for d in [p - 1, p, p + 1] {
            ints.push(((d >> 64) as u64, d as u64));
            let neg = (d as i128).wrapping_neg() as u128;
            ints.push(((neg >> 64) as u64, neg as u64));
        }
        p = p.saturating_mul(10);
    }
    for (hi, lo) in ints {
        for ty in INT_TYS {
            for nonzero in [false, true] {
                let steps = vec![
                    Step::new(0, Op::ToLean { src: ToLeanSrc::Int { ty, hi, lo, nonzero }, try_: nonzero }),
                    Step::new(0, Op::Push { ch: '!', try_: false }),
                ];
                out.push(case_of(steps, grid_heap(1 << 26, out.len())));
            }
        }
    }
    for b in [false, true] {
        out.push(case_of(vec![Step::new(0, Op::ToLean { src: ToLeanSrc::Bool(b), try_: b }), Step::new(0, Op::Push { ch: '?', try_: false })], grid_heap(1 << 26, 0)));
    }
    out
}

// ------------------------------------------------------------------------------------------------
// C13: length/capacity ratios x m x sharing situations

pub fn c13_cases() -> Vec<Case> {
    let mut out = Vec::new();
    let lens = [0usize, 1, 15, 16, 17, 18, 30, 40, 100, 1000];
    let grid = size_grid();
    for &l in &lens {
        let caps: Vec<usize> = {
            let mut v = vec![l, l + 1, l + 5, l + l / 2, 2 * l, 45, 100, 1000, 5000];
            v.retain(|c| *c >= l && *c > INLINE);
            v.sort_unstable();
            v.dedup();
            v
        };
        for &cap in &caps {
            let mut ms = vec![0usize, l.saturating_sub(1), l, l + 1, cap - 1, cap, cap + 1, INLINE - 1, INLINE, INLINE + 1, (l + cap) / 2];
            ms.extend(grid.iter().copied().step_by(11));
            ms.sort_unstable();
            ms.dedup();
            for &m in &ms {
                for sharing in 0..5 {
                    for form in 0..4 {
                        // only run the try_/fit forms on a thinned grid
                        if form > 0 && (m % 3 != 0) {
                            continue;
                        }
                        let mut rng = Rng::new((l * 31 + cap) as u64);
                        let text = text_of_len(&mut rng, l, l % 2 == 0);
                        let mut steps = vec![Step::new(0, Op::WithCapacity { n: cap, try_: false }), Step::new(0, Op::PushStr { s: text.clone(), try_: false })];
                        match sharing {
                            0 => {}
                            1 => steps.push(Step::new(1, Op::Clone { src: 0 })),
                            2 => {
                                steps.push(Step::new(1, Op::Clone { src: 0 }));
                                steps.push(Step::new(2, Op::Clone { src: 0 }));
                            }
                            3 => {
                                // the other owner is shorter
                                steps.push(Step::new(1, Op::Clone { src: 0 }));
                                steps.push(Step::new(1, Op::Truncate { len: cut(&text, l / 2), try_: false }));
                            }
                            _ => {
                                // the target is shorter than its co-owner
                                steps.push(Step::new(1, Op::Clone { src: 0 }));
                                steps.push(Step::new(0, Op::Truncate { len: cut(&text, l / 2), try_: false }));
                            }
                        }
                        let op = match form {
                            0 => Op::ShrinkTo { n: m, try_: false },
                            1 => Op::ShrinkTo { n: m, try_: true },
                            2 => Op::ShrinkToFit { try_: false },
                            _ => Op::ShrinkToFit { try_: true },
                        };
                        steps.push(Step::new(0, op));
                        steps.extend(epilogue());
                        out.push(case_of(steps, grid_heap(1 << 26, out.len())));
                    }
                }
            }
        }
    }
    out
}

// ------------------------------------------------------------------------------------------------
// C08: clones of every kind, of every storage state, for lengths up to 64 KiB and up to 64 clones

pub fn c08_cases() -> Vec<Case> {
    let mut out = Vec::new();
    let lens = [0usize, 1, 8, 15, 16, 17, 18, 31, 32, 33, 64, 100, 255, 1000, 4096, 65536];
    for &l in &lens {
        for state in STATES {
            let mut rng = Rng::new(l as u64 + 99);
            let text = text_of_len(&mut rng, l, l % 2 == 1);
            let (mut steps, _) = prep(state, &text, l % super::exec::ARENA_TEXTS);
            let n_clones = if l <= 4096 { 60 } else { 4 };
            let slots = 3 + n_clones;
            for k in 0..n_clones {
                let src = if k % 3 == 0 { 0 } else { 3 + k - 1 };
                let dst = 3 + k;
                let op = match k % 4 {
                    0 => Op::Clone { src },
                    1 => Op::FromRef { src },
                    2 => Op::ToLean { src: ToLeanSrc::Slot(src), try_: k % 8 == 2 },
                    _ => Op::CloneFrom { src },
                };
                steps.push(Step::new(dst, op));
            }
            // clone_from onto live handles, then drop originals and copies alternately
            steps.push(Step::new(3, Op::CloneFrom { src: 0 }));
            steps.push(Step::new(0, Op::Drop));
            for k in (0..n_clones).step_by(2) {
                steps.push(Step::new(3 + k, Op::Drop));
            }
            steps.push(Step::new(4, Op::Push { ch: 'x', try_: false }));
            let mut c = case_of(steps, grid_heap(1 << 26, out.len()));
            c.slots = slots;
            out.push(c);
        }
    }
    out
}
