//! Scheduling points owned by the simulator (allocator calls, harness read windows). A no-op
//! unless an engine installs a callback (schedsim installs the scheduler's `switch`).

use std::sync::atomic::{AtomicUsize, Ordering};

static HOOK: AtomicUsize = AtomicUsize::new(0);

pub fn set(f: Option<fn(&'static str)>) {
    HOOK.store(f.map(|f| f as usize).unwrap_or(0), Ordering::SeqCst);
}

#[inline]
pub fn point(what: &'static str) {
    let p = HOOK.load(Ordering::Relaxed);
    if p != 0 {
        // SAFETY: only `set` stores here, and it stores a `fn(&'static str)`.
        let f: fn(&'static str) = unsafe { std::mem::transmute(p) };
        f(what);
    }
}
