//! Shadow heap behind the crate's `verif-hooks` allocator table.
//!
//! Every request the crate makes is recorded and served from the real allocator with guard zones
//! on both sides; released blocks are poisoned and quarantined until the end of the run, so a
//! stale read yields poison (never undefined behaviour in the harness) and a stale write damages
//! poison that is checked after every step. The heap also *answers* requests: it can refuse the
//! k-th request of a step, refuse everything above a limit, and move or keep blocks on realloc.

use std::alloc::{self as sysalloc, Layout};
use std::cell::RefCell;

pub const GUARD: usize = 32;
pub const GUARD_BYTE: u8 = 0xA5;
pub const FRESH_BYTE: u8 = 0xCD;
pub const DEAD_BYTE: u8 = 0xDD;

pub use super::heapcfg::{Counters, HeapCfg, ReallocPolicy};

#[derive(Clone, Copy, Debug, PartialEq, Eq)]
pub enum ReqKind {
    Alloc,
    Realloc,
    Dealloc,
}

#[derive(Clone, Copy, Debug)]
pub struct Req {
    pub kind: ReqKind,
    pub size: usize,
    pub ok: bool,
}

struct Block {
    real: *mut u8,
    real_layout: Layout,
    user: *mut u8,
    size: usize,
    align: usize,
    reserved: usize,
    live: bool,
}

#[derive(Clone, Debug)]
pub struct HeapViolation {
    pub kind: &'static str,
    pub detail: String,
}

#[derive(Clone, Copy, Debug)]
pub struct BlockInfo {
    pub id: usize,
    pub live: bool,
    pub user: usize,
    pub size: usize,
}

pub struct Heap {
    blocks: Vec<Block>,
    pub cfg: HeapCfg,
    pub counters: Counters,
    rng: super::rng::Rng,
    /// ordinals (0-based, among alloc+realloc requests of the *current step*) that must fail
    fail_step_req: Vec<usize>,
    step_req: usize,
    /// ordinals among all alloc+realloc requests of the *run* that must fail (sweeps)
    fail_run_req: Vec<u64>,
    pub step_log: Vec<Req>,
    pub violation: Option<HeapViolation>,
    enabled: bool,
}

impl Heap {
    fn new() -> Self {
        Heap {
            blocks: Vec::new(),
            cfg: HeapCfg::default(),
            counters: Counters::default(),
            rng: super::rng::Rng::new(1),
            fail_step_req: Vec::new(),
            step_req: 0,
            fail_run_req: Vec::new(),
            step_log: Vec::new(),
            violation: None,
            enabled: false,
        }
    }

    fn violate(&mut self, kind: &'static str, detail: String) {
        if self.violation.is_none() {
            self.violation = Some(HeapViolation { kind, detail });
        }
    }

    fn find_user(&self, p: *mut u8) -> Option<usize> {
        // newest first: a quarantined address is never handed out again, so at most one match
        self.blocks.iter().rposition(|b| b.user == p)
    }

    fn should_fail(&mut self, size: usize, is_realloc: bool) -> bool {
        let ord = self.step_req;
        self.step_req += 1;
        let run_ord = self.counters.requests() - 1; // already counted by caller
        let planned = self.fail_step_req.contains(&ord) || self.fail_run_req.contains(&run_ord);
        if planned {
            if is_realloc {
                self.counters.failed_realloc += 1
            } else {
                self.counters.failed_alloc += 1
            }
            return true;
        }
        if size > self.cfg.limit {
            self.counters.refused += 1;
            return true;
        }
        false
    }

    unsafe fn raw_new(&mut self, size: usize, align: usize) -> usize {
        let pre = GUARD.max(align);
        let reserved = size + self.cfg.slack;
        let real_size = pre + reserved + GUARD;
        let real_layout = Layout::from_size_align(real_size, align.max(16)).unwrap();
        let real = unsafe { sysalloc::alloc(real_layout) };
        assert!(!real.is_null(), "harness: system allocator exhausted");
        unsafe {
            std::ptr::write_bytes(real, GUARD_BYTE, pre);
            std::ptr::write_bytes(real.add(pre), FRESH_BYTE, reserved);
            std::ptr::write_bytes(real.add(pre + reserved), GUARD_BYTE, GUARD);
        }
        let user = unsafe { real.add(pre) };
        self.blocks.push(Block { real, real_layout, user, size, align, reserved, live: true });
        self.blocks.len() - 1
    }

    pub unsafe fn alloc(&mut self, layout: Layout) -> *mut u8 {
        self.counters.alloc += 1;
        if self.should_fail(layout.size(), false) {
            self.step_log.push(Req { kind: ReqKind::Alloc, size: layout.size(), ok: false });
            return std::ptr::null_mut();
        }
        self.step_log.push(Req { kind: ReqKind::Alloc, size: layout.size(), ok: true });
        let i = unsafe { self.raw_new(layout.size(), layout.align()) };
        self.blocks[i].user
    }

    fn check_block(&mut self, i: usize, what: &str) {
        let b = &self.blocks[i];
        let pre = GUARD.max(b.align);
        let bad = unsafe {
            let s = std::slice::from_raw_parts(b.real, pre);
            if s.iter().any(|x| *x != GUARD_BYTE) {
                Some(("guard_damaged", "front guard"))
            } else {
                let s = std::slice::from_raw_parts(b.real.add(pre + b.reserved), GUARD);
                if s.iter().any(|x| *x != GUARD_BYTE) {
                    Some(("guard_damaged", "rear guard"))
                } else if b.live {
                    let s = std::slice::from_raw_parts(b.user.add(b.size), b.reserved - b.size);
                    if s.iter().any(|x| *x != FRESH_BYTE) {
                        Some(("guard_damaged", "bytes behind the requested size"))
                    } else {
                        None
                    }
                } else {
                    let s = std::slice::from_raw_parts(b.user, b.reserved);
                    if s.iter().any(|x| *x != DEAD_BYTE) {
                        Some(("write_after_free", "poison of a released block"))
                    } else {
                        None
                    }
                }
            }
        };
        if let Some((kind, part)) = bad {
            let (id, size) = (i, self.blocks[i].size);
            self.violate(kind, format!("{part} damaged (block #{id}, size {size}, seen at {what})"));
        }
    }

    fn validate(&mut self, p: *mut u8, layout: Layout, what: &'static str) -> Option<usize> {
        let Some(i) = self.find_user(p) else {
            self.violate("unknown_pointer", format!("{what} of a pointer the crate never obtained"));
            return None;
        };
        if !self.blocks[i].live {
            let kind = if what == "dealloc" { "double_free" } else { "realloc_after_free" };
            self.violate(kind, format!("{what} of released block #{i}"));
            return None;
        }
        let (size, align) = (self.blocks[i].size, self.blocks[i].align);
        if layout.size() != size || layout.align() != align {
            self.violate(
                "layout_mismatch",
                format!(
                    "{what} of block #{i} with size {} align {}, allocated with size {size} align {align}",
                    layout.size(),
                    layout.align()
                ),
            );
            // carry on with the true layout
        }
        self.check_block(i, what);
        Some(i)
    }

    fn kill(&mut self, i: usize) {
        let b = &mut self.blocks[i];
        unsafe { std::ptr::write_bytes(b.user, DEAD_BYTE, b.reserved) };
        b.live = false;
    }

    pub unsafe fn dealloc(&mut self, p: *mut u8, layout: Layout) {
        self.counters.dealloc += 1;
        self.step_log.push(Req { kind: ReqKind::Dealloc, size: layout.size(), ok: true });
        if let Some(i) = self.validate(p, layout, "dealloc") {
            self.kill(i);
        }
    }

    pub unsafe fn realloc(&mut self, p: *mut u8, layout: Layout, new_size: usize) -> *mut u8 {
        self.counters.realloc += 1;
        let fail = self.should_fail(new_size, true);
        let Some(i) = self.validate(p, layout, "realloc") else {
            self.step_log.push(Req { kind: ReqKind::Realloc, size: new_size, ok: false });
            return std::ptr::null_mut();
        };
        if fail {
            self.step_log.push(Req { kind: ReqKind::Realloc, size: new_size, ok: false });
            return std::ptr::null_mut();
        }
        self.step_log.push(Req { kind: ReqKind::Realloc, size: new_size, ok: true });
        let fits = new_size <= self.blocks[i].reserved;
        let stay = fits
            && match self.cfg.policy {
                ReallocPolicy::AlwaysMove => false,
                ReallocPolicy::InPlaceWhenFits => true,
                ReallocPolicy::Random => self.rng.chance(1, 2),
            };
        if stay {
            self.counters.realloc_inplace += 1;
            let b = &mut self.blocks[i];
            if new_size < b.size {
                unsafe { std::ptr::write_bytes(b.user.add(new_size), FRESH_BYTE, b.size - new_size) };
            }
            b.size = new_size;
            b.user
        } else {
            self.counters.realloc_moved += 1;
            let (old_user, old_size, align) = (self.blocks[i].user, self.blocks[i].size, self.blocks[i].align);
            let j = unsafe { self.raw_new(new_size, align) };
            let n = old_size.min(new_size);
            unsafe { std::ptr::copy_nonoverlapping(old_user, self.blocks[j].user, n) };
            self.counters.bytes_moved += n as u64;
            self.kill(i);
            self.blocks[j].user
        }
    }

    /// Guards, slack and poison of every block; first damage becomes the heap violation.
    pub fn check_integrity(&mut self) {
        for i in 0..self.blocks.len() {
            if self.violation.is_some() {
                return;
            }
            self.check_block(i, "step audit");
        }
    }

    pub fn live_blocks(&self) -> Vec<BlockInfo> {
        self.blocks
            .iter()
            .enumerate()
            .filter(|(_, b)| b.live)
            .map(|(i, b)| BlockInfo { id: i, live: true, user: b.user as usize, size: b.size })
            .collect()
    }

    pub fn live_count(&self) -> usize {
        self.blocks.iter().filter(|b| b.live).count()
    }

    /// The block (live or quarantined) whose body contains `p`.
    pub fn block_containing(&self, p: usize) -> Option<BlockInfo> {
        self.blocks.iter().enumerate().rev().find_map(|(i, b)| {
            let u = b.user as usize;
            // `<=` at the end: an empty handle may legitimately point one past the header only
            if p >= u && p <= u + b.reserved {
                Some(BlockInfo { id: i, live: b.live, user: u, size: b.size })
            } else {
                None
            }
        })
    }

    fn release_all(&mut self) {
        for b in self.blocks.drain(..) {
            unsafe { sysalloc::dealloc(b.real, b.real_layout) };
        }
    }
}

thread_local! {
    static HEAP: RefCell<Heap> = RefCell::new(Heap::new());
    static TOTAL_FAULTS: std::cell::Cell<u64> = const { std::cell::Cell::new(0) };
}

/// Allocator faults fired over all runs of this thread (evidence).
pub fn counters_total() -> u64 {
    TOTAL_FAULTS.with(|t| t.get())
}

unsafe fn hook_alloc(l: Layout) -> *mut u8 {
    super::yieldp::point("alloc");
    HEAP.with(|h| {
        let mut h = h.borrow_mut();
        if h.enabled { unsafe { h.alloc(l) } } else { unsafe { sysalloc::alloc(l) } }
    })
}
unsafe fn hook_realloc(p: *mut u8, l: Layout, n: usize) -> *mut u8 {
    super::yieldp::point("realloc");
    HEAP.with(|h| {
        let mut h = h.borrow_mut();
        if h.enabled { unsafe { h.realloc(p, l, n) } } else { unsafe { sysalloc::realloc(p, l, n) } }
    })
}
unsafe fn hook_dealloc(p: *mut u8, l: Layout) {
    super::yieldp::point("dealloc");
    HEAP.with(|h| {
        let mut h = h.borrow_mut();
        if h.enabled { unsafe { h.dealloc(p, l) } } else { unsafe { sysalloc::dealloc(p, l) } }
    })
}

static TABLE: lean_string::verif_hooks::AllocTable =
    lean_string::verif_hooks::AllocTable { alloc: hook_alloc, realloc: hook_realloc, dealloc: hook_dealloc };

/// Install the process-wide table (idempotent).
pub fn install() {
    lean_string::verif_hooks::install(Some(&TABLE));
}

pub fn with<R>(f: impl FnOnce(&mut Heap) -> R) -> R {
    HEAP.with(|h| f(&mut h.borrow_mut()))
}

/// Start a run: empty heap, given configuration. All handles of the previous run must be gone.
pub fn begin_run(cfg: HeapCfg) {
    with(|h| {
        h.release_all();
        h.rng = super::rng::Rng::new(cfg.rng_seed);
        h.cfg = cfg;
        h.counters = Counters::default();
        h.fail_step_req.clear();
        h.fail_run_req.clear();
        h.step_req = 0;
        h.step_log.clear();
        h.violation = None;
        h.enabled = true;
    })
}

/// End a run: returns the number of blocks still live (after a final integrity check).
pub fn end_run() -> (usize, Option<HeapViolation>) {
    with(|h| {
        h.check_integrity();
        let live = h.live_count();
        let v = h.violation.clone();
        TOTAL_FAULTS.with(|t| t.set(t.get() + h.counters.faults()));
        // Leaked blocks stay allocated from the crate's point of view; the harness owns the memory.
        h.release_all();
        h.enabled = false;
        (live, v)
    })
}

pub fn begin_step(fail_step_req: &[usize]) {
    with(|h| {
        h.fail_step_req.clear();
        h.fail_step_req.extend_from_slice(fail_step_req);
        h.step_req = 0;
        h.step_log.clear();
    })
}

pub fn set_fail_run_req(ords: &[u64]) {
    with(|h| {
        h.fail_run_req.clear();
        h.fail_run_req.extend_from_slice(ords);
    })
}

pub fn counters() -> Counters {
    with(|h| h.counters)
}

/// Integrity check of every block, then the first allocator-boundary violation (if any).
pub fn take_violation() -> Option<HeapViolation> {
    with(|h| {
        h.check_integrity();
        h.violation.take()
    })
}

pub fn step_log() -> Vec<Req> {
    with(|h| h.step_log.clone())
}

pub fn ref_count(h: &lean_string::LeanString) -> Option<usize> {
    h.verif_ref_count()
}

/// The shadow heap is in place (block liveness, reference counts and exact request counts are known).
pub const HOOKED: bool = true;
/// Request counters count exactly the crate's own requests.
pub const COUNTS: bool = true;
