#![allow(dead_code)]
//! Shared simulation core, included by path into each engine binary (each engine links its own
//! build of `lean_string`: hooked, hooked + scheduler atomics, or untouched for Miri).

pub mod rng;
pub mod yieldp;
pub mod heapcfg;
#[cfg(feature = "hooks")]
pub mod heap;
#[cfg(not(feature = "hooks"))]
#[path = "heap_nohooks.rs"]
pub mod heap;
pub mod ops;
pub mod exec;
pub mod genr;
pub mod run;
pub mod scen;
pub mod shrink;
pub mod work;
#[cfg(feature = "conc")]
pub mod conc;
