//! Seeded generation of histories: swarm configuration per run, then one step at a time looking at
//! the model state (so indices, lengths and sharing situations are biased to where the bugs live).

use super::exec::{ARENA_TEXTS, Model};
use super::heapcfg::{HeapCfg, ReallocPolicy};
use super::ops::*;
use super::rng::Rng;

pub const INLINE: usize = 2 * std::mem::size_of::<usize>();

const ASCII: &[u8] = b"abcdefghijklmnopqrstuvwxyz0123456789 _-\0\x7f\n";
const W2: &[char] = &['é', 'ß', 'ñ', 'Ω', 'ж', '\u{80}', '\u{7FF}'];
const W3: &[char] = &['€', '世', '界', 'あ', '\u{800}', '\u{FFFD}', '\u{FFFF}'];
const W4: &[char] = &['🦀', '𝄞', '😀', '\u{10000}', '\u{10FFFF}'];

pub fn random_char(rng: &mut Rng, mixed: bool) -> char {
    if !mixed {
        return ASCII[rng.below(ASCII.len())] as char;
    }
    match rng.below(10) {
        0..=4 => ASCII[rng.below(ASCII.len())] as char,
        5 | 6 => *rng.pick(W2),
        7 | 8 => *rng.pick(W3),
        _ => *rng.pick(W4),
    }
}

/// A text of (about) `target` bytes; exact when `exact` (padded with ASCII).
pub fn text_of_len(rng: &mut Rng, target: usize, mixed: bool) -> String {
    let mut s = String::with_capacity(target);
    while s.len() < target {
        let c = random_char(rng, mixed);
        if s.len() + c.len_utf8() <= target {
            s.push(c);
        } else {
            s.push(ASCII[rng.below(ASCII.len())] as char);
        }
    }
    s
}

#[derive(Clone, Copy, Debug, PartialEq, Eq, serde::Serialize, serde::Deserialize)]
pub enum Regime {
    Ascii,
    Mixed,
    HugLimit,
    Long,
}

#[derive(Clone, Debug, serde::Serialize, serde::Deserialize)]
pub struct Faults {
    /// probability (per mille) that a step gets a planned alloc/realloc failure (F1/F2)
    pub alloc_fail_pm: u32,
    /// callbacks may panic (F4)
    pub callback_panic: bool,
    /// indices inside characters / past the end (F5)
    pub bad_index: bool,
    /// lying size hints (F6)
    pub lying_hint: bool,
    /// sizes from the giant grid (F3 via the refusal limit)
    pub giant_size: bool,
}

impl Faults {
    pub fn none() -> Self {
        Faults { alloc_fail_pm: 0, callback_panic: false, bad_index: false, lying_hint: false, giant_size: false }
    }
    pub fn any(&self) -> bool {
        self.alloc_fail_pm > 0 || self.callback_panic || self.bad_index || self.lying_hint || self.giant_size
    }
}

pub const FAMILIES: usize = 18;

#[derive(Clone, Debug, serde::Serialize, serde::Deserialize)]
pub struct GenCfg {
    pub slots: usize,
    pub steps: usize,
    pub regime: Regime,
    pub weights: [u32; FAMILIES],
    pub faults: Faults,
    /// half of all constructed strings come from the static arena (C10)
    #[serde(default)]
    pub static_bias: bool,
}

fn fam_index(f: OpFamily) -> usize {
    use OpFamily::*;
    match f {
        Construct => 0,
        ConstructSized => 1,
        Decode => 2,
        Collect => 3,
        ToLean => 4,
        CloneLike => 5,
        Drop => 6,
        Append => 7,
        Pop => 8,
        Remove => 9,
        Insert => 10,
        Truncate => 11,
        Clear => 12,
        Retain => 13,
        Reserve => 14,
        Shrink => 15,
        Extend => 16,
        Write => 17,
    }
}

const FAMILY_ORDER: [OpFamily; FAMILIES] = [
    OpFamily::Construct,
    OpFamily::ConstructSized,
    OpFamily::Decode,
    OpFamily::Collect,
    OpFamily::ToLean,
    OpFamily::CloneLike,
    OpFamily::Drop,
    OpFamily::Append,
    OpFamily::Pop,
    OpFamily::Remove,
    OpFamily::Insert,
    OpFamily::Truncate,
    OpFamily::Clear,
    OpFamily::Retain,
    OpFamily::Reserve,
    OpFamily::Shrink,
    OpFamily::Extend,
    OpFamily::Write,
];

/// Base weights; `focus` multiplies the families a property cares about.
pub fn base_weights() -> [u32; FAMILIES] {
    let mut w = [0u32; FAMILIES];
    use OpFamily::*;
    for (f, x) in [
        (Construct, 10),
        (ConstructSized, 3),
        (Decode, 2),
        (Collect, 3),
        (ToLean, 2),
        (CloneLike, 16),
        (Drop, 8),
        (Append, 14),
        (Pop, 5),
        (Remove, 5),
        (Insert, 7),
        (Truncate, 7),
        (Clear, 2),
        (Retain, 4),
        (Reserve, 6),
        (Shrink, 5),
        (Extend, 5),
        (Write, 2),
    ] {
        w[fam_index(f)] = x;
    }
    w
}

/// Swarm configuration of one run.
pub fn swarm(rng: &mut Rng, steps_max: usize, faults: &Faults, focus: &[(OpFamily, u32)]) -> (GenCfg, HeapCfg) {
    let slots = rng.range(2, 6);
    let regime = match rng.below(10) {
        0 | 1 => Regime::Ascii,
        2..=5 => Regime::Mixed,
        6..=8 => Regime::HugLimit,
        _ => Regime::Long,
    };
    let mut weights = base_weights();
    // swarm: switch families off / boost them at random
    for w in weights.iter_mut() {
        *w *= match rng.below(8) {
            0 | 1 => 0,
            2..=5 => 1,
            6 => 2,
            _ => 4,
        };
    }
    for (f, m) in focus {
        let i = fam_index(*f);
        weights[i] = weights[i].max(base_weights()[i]) * m;
    }
    // a run without any source of strings or sharing explores nothing
    let c = fam_index(OpFamily::Construct);
    let k = fam_index(OpFamily::CloneLike);
    weights[c] = weights[c].max(6);
    weights[k] = weights[k].max(6);
    let steps = rng.range(steps_max / 3, steps_max).max(3);
    let policy = match rng.below(3) {
        0 => ReallocPolicy::AlwaysMove,
        1 => ReallocPolicy::InPlaceWhenFits,
        _ => ReallocPolicy::Random,
    };
    let slack = *rng.pick(&[0usize, 0, 8, 64, 4096]);
    let limit = if faults.giant_size { *rng.pick(&[1usize << 16, 1 << 20, 1 << 24]) } else { 1 << 26 };
    let heap = HeapCfg { limit, policy, slack, rng_seed: rng.next_u64() };
    (GenCfg { slots, steps, regime, weights, faults: faults.clone(), static_bias: false }, heap)
}

/// The C06 size grid: every power of two ±2, the 56-bit boundary, isize::MAX, usize::MAX.
pub fn size_grid() -> &'static [usize] {
    static G: std::sync::OnceLock<Vec<usize>> = std::sync::OnceLock::new();
    G.get_or_init(build_size_grid)
}

fn build_size_grid() -> Vec<usize> {
    let mut v = Vec::new();
    for k in 0..usize::BITS {
        let p = 1usize << k;
        for d in [-2i64, -1, 0, 1, 2] {
            v.push((p as i128 + d as i128).clamp(0, usize::MAX as i128) as usize);
        }
    }
    if usize::BITS == 64 {
        let m = (1u64 << 56) as usize - 1;
        for d in 0..=4 {
            v.push(m - 2 + d);
        }
    }
    for d in 0..=4usize {
        v.push((isize::MAX as usize) - 2 + d);
    }
    for d in 0..=2usize {
        v.push(usize::MAX - d);
    }
    v.sort_unstable();
    v.dedup();
    v
}

pub struct Gen<'a> {
    pub rng: &'a mut Rng,
    pub cfg: &'a GenCfg,
}

impl Gen<'_> {
    fn mixed(&self) -> bool {
        self.cfg.regime != Regime::Ascii
    }

    pub fn text_len(&mut self) -> usize {
        let r = &mut *self.rng;
        match self.cfg.regime {
            Regime::HugLimit => match r.below(10) {
                0 => 0,
                1 => r.range(1, 4),
                2..=7 => r.range(INLINE - 3, INLINE + 3),
                _ => r.range(INLINE + 1, 48),
            },
            Regime::Long => match r.below(10) {
                0..=2 => r.range(0, INLINE),
                3..=6 => r.range(INLINE + 1, 100),
                _ => r.range(100, 4000),
            },
            _ => match r.below(20) {
                0 => 0,
                1..=4 => r.range(1, 8),
                5..=8 => r.range(8, INLINE - 1),
                9..=11 => r.range(INLINE - 1, INLINE + 1),
                12..=17 => r.range(INLINE + 1, 48),
                _ => r.range(48, 300),
            },
        }
    }

    pub fn text(&mut self) -> String {
        let n = self.text_len();
        let m = self.mixed();
        text_of_len(self.rng, n, m)
    }

    pub fn short_text(&mut self) -> String {
        let n = match self.rng.below(8) {
            0 => 0,
            1..=4 => self.rng.range(1, 5),
            5 | 6 => self.rng.range(5, 20),
            _ => self.text_len(),
        };
        let m = self.mixed();
        text_of_len(self.rng, n, m)
    }

    pub fn ch(&mut self) -> char {
        let m = self.mixed();
        random_char(self.rng, m)
    }

    fn index_in(&mut self, text: &str, allow_end: bool) -> usize {
        let len = text.len();
        let r = &mut *self.rng;
        let bad = self.cfg.faults.bad_index;
        let roll = r.below(20);
        if bad && roll == 0 {
            return len + 1 + r.below(2);
        }
        if bad && roll == 1 && len > 0 {
            // possibly inside a character
            return r.below(len + 1);
        }
        if roll <= 4 {
            return if allow_end || len == 0 {
                len
            } else if bad {
                len
            } else {
                text.char_indices().last().map(|x| x.0).unwrap_or(0)
            };
        }
        if roll == 5 {
            return 0;
        }
        // a random char boundary
        let bounds: Vec<usize> = text.char_indices().map(|x| x.0).collect();
        if bounds.is_empty() {
            return 0;
        }
        let b = bounds[r.below(bounds.len())];
        if !allow_end && !bad { b } else if r.chance(1, 8) { len } else { b }
    }

    fn size(&mut self, len: usize) -> usize {
        let r = &mut *self.rng;
        if self.cfg.faults.giant_size && r.chance(1, 3) {
            let g = size_grid();
            let v = g[r.below(g.len())];
            return if r.chance(1, 4) { v.wrapping_sub(len) } else { v };
        }
        match r.below(12) {
            0 => 0,
            1 => 1,
            2..=4 => r.range(0, INLINE + 2),
            5 | 6 => len.saturating_sub(r.below(3)) + r.below(3),
            7..=9 => r.range(INLINE, 100),
            _ => r.range(100, 5000),
        }
    }

    fn hint(&mut self) -> Hint {
        if self.cfg.faults.lying_hint && self.rng.chance(1, 3) {
            let r = &mut *self.rng;
            let v = match r.below(6) {
                0 => 0,
                1 => (1usize << (usize::BITS - 8)) - 1 + r.below(4) - 2,
                2 => isize::MAX as usize,
                3 => usize::MAX - r.below(2),
                4 => r.range(1, 100),
                _ => r.range(100, 100_000),
            };
            Hint::Val(v)
        } else {
            Hint::Honest
        }
    }

    fn items(&mut self, kind: ItemKind) -> Vec<String> {
        let n = match self.rng.below(8) {
            0 => 0,
            1..=5 => self.rng.range(1, 4),
            _ => self.rng.range(4, 12),
        };
        (0..n)
            .map(|_| match kind {
                ItemKind::Char | ItemKind::RefChar => self.ch().to_string(),
                _ => self.short_text(),
            })
            .collect()
    }

    fn panic_at(&mut self, n_callbacks: usize) -> Option<usize> {
        if self.cfg.faults.callback_panic && self.rng.chance(1, 3) { Some(self.rng.below(n_callbacks + 1)) } else { None }
    }

    fn pick_slot(&mut self, models: &[Option<Model>], want_full: bool) -> usize {
        let cands: Vec<usize> = (0..self.cfg.slots).filter(|i| models[*i].is_some() == want_full).collect();
        if cands.is_empty() || self.rng.chance(1, 10) { self.rng.below(self.cfg.slots) } else { cands[self.rng.below(cands.len())] }
    }

    fn constructor(&mut self) -> Op {
        let r = if self.cfg.static_bias && self.rng.chance(1, 2) { 12 } else { self.rng.below(13) };
        match r {
            0 => Op::New,
            1 | 2 => Op::FromStr(self.text()),
            3 => Op::FromString(self.text()),
            4 => Op::FromRefString(self.text()),
            5 => Op::FromBoxStr(self.text()),
            6 => Op::FromCowBorrowed(self.text()),
            7 => Op::FromCowOwned(self.text()),
            8 => Op::FromChar(self.ch()),
            9 => Op::Parse(self.text()),
            _ => {
                let a = self.rng.below(ARENA_TEXTS);
                let len = if self.rng.chance(2, 3) { usize::MAX } else { self.rng.range(0, 60) };
                Op::FromStatic { arena: a, len }
            }
        }
    }

    fn decode(&mut self) -> Op {
        let t = self.text();
        match self.rng.below(6) {
            0 => Op::FromUtf8(t.into_bytes()),
            1 => {
                let mut b = t.into_bytes();
                if !b.is_empty() && self.rng.chance(1, 2) {
                    let i = self.rng.below(b.len());
                    b[i] = *self.rng.pick(&[0xFFu8, 0xC0, 0x80, 0xE0, 0xF0, 0xED]);
                }
                Op::FromUtf8(b)
            }
            2 | 3 => {
                let mut b = t.into_bytes();
                let k = self.rng.below(4);
                for _ in 0..k {
                    if b.is_empty() {
                        break;
                    }
                    let i = self.rng.below(b.len());
                    b[i] = *self.rng.pick(&[0xFFu8, 0xC0, 0x80, 0xE0, 0xF0, 0xED, 0xA0]);
                }
                Op::FromUtf8Lossy(b)
            }
            x => {
                let mut u: Vec<u16> = t.encode_utf16().collect();
                if !u.is_empty() && self.rng.chance(1, 2) {
                    let i = self.rng.below(u.len());
                    u[i] = *self.rng.pick(&[0xD800u16, 0xDC00, 0xDBFF, 0xDFFF]);
                }
                if x == 4 { Op::FromUtf16(u) } else { Op::FromUtf16Lossy(u) }
            }
        }
    }

    fn to_lean_src(&mut self, models: &[Option<Model>]) -> ToLeanSrc {
        match self.rng.below(8) {
            0 | 1 | 2 => {
                let ty = *self.rng.pick(&INT_TYS);
                let (hi, lo) = match self.rng.below(5) {
                    0 => (0, self.rng.below(100) as u64),
                    1 => (u64::MAX, u64::MAX - self.rng.below(100) as u64),
                    2 => {
                        // around a power of ten
                        let e = self.rng.below(20) as u32;
                        let p = 10u64.pow(e.min(19));
                        (0, p.wrapping_add(self.rng.below(3) as u64).wrapping_sub(1))
                    }
                    _ => (self.rng.next_u64() >> self.rng.below(64), self.rng.next_u64() >> self.rng.below(64)),
                };
                ToLeanSrc::Int { ty, hi, lo, nonzero: self.rng.chance(1, 3) }
            }
            3 => ToLeanSrc::Bool(self.rng.chance(1, 2)),
            4 => ToLeanSrc::Char(self.ch()),
            5 => ToLeanSrc::Str(self.text()),
            6 => ToLeanSrc::Slot(self.pick_slot(models, true)),
            _ => {
                let pieces = self.items(ItemKind::Str);
                let n = pieces.len() + 1;
                let fail_at = if self.rng.chance(1, 6) { Some(self.rng.below(n)) } else { None };
                ToLeanSrc::Display { panic_at: self.panic_at(n), pieces, fail_at }
            }
        }
    }

    /// Next step, chosen by looking at the model state.
    pub fn step(&mut self, models: &[Option<Model>]) -> Step {
        let live = models.iter().filter(|m| m.is_some()).count();
        let mut w = self.cfg.weights;
        if live == 0 {
            // nothing to mutate yet
            for f in FAMILY_ORDER {
                if !matches!(
                    f,
                    OpFamily::Construct | OpFamily::ConstructSized | OpFamily::Decode | OpFamily::Collect | OpFamily::ToLean
                ) {
                    w[fam_index(f)] = 0;
                }
            }
            w[fam_index(OpFamily::Construct)] = w[fam_index(OpFamily::Construct)].max(1);
        }
        let fam = FAMILY_ORDER[self.rng.weighted(&w)];
        let try_ = self.rng.chance(1, 3);
        use OpFamily::*;
        let (slot, op) = match fam {
            Construct => (self.pick_slot(models, false), self.constructor()),
            ConstructSized => (self.pick_slot(models, false), Op::WithCapacity { n: self.size(0), try_ }),
            Decode => (self.pick_slot(models, false), self.decode()),
            Collect => {
                let kind = *self.rng.pick(&ITEM_KINDS);
                let items = self.items(kind);
                let n = units(kind, &items);
                (self.pick_slot(models, false), Op::Collect { kind, hint: self.hint(), panic_at: self.panic_at(n), items })
            }
            ToLean => (self.pick_slot(models, false), Op::ToLean { src: self.to_lean_src(models), try_ }),
            CloneLike => {
                let src = self.pick_slot(models, true);
                let mut dst = self.pick_slot(models, false);
                if dst == src {
                    dst = (src + 1 + self.rng.below(self.cfg.slots - 1)) % self.cfg.slots;
                }
                let op = match self.rng.below(8) {
                    0..=3 => Op::Clone { src },
                    4 | 5 => Op::CloneFrom { src },
                    6 => Op::FromRef { src },
                    _ => Op::ToLean { src: ToLeanSrc::Slot(src), try_ },
                };
                // cloning onto a live handle releases its buffer: choose a live target sometimes
                if self.rng.chance(1, 4) {
                    let d2 = self.pick_slot(models, true);
                    if d2 != src {
                        dst = d2;
                    }
                }
                (dst, op)
            }
            Drop => (self.pick_slot(models, true), if self.rng.chance(1, 5) { Op::Take } else { Op::Drop }),
            _ => {
                let slot = self.pick_slot(models, true);
                let text = models[slot].as_ref().map(|m| m.text.clone()).unwrap_or_default();
                let op = match fam {
                    Append => match self.rng.below(8) {
                        0..=2 => Op::Push { ch: self.ch(), try_ },
                        3..=5 => Op::PushStr { s: self.short_text(), try_ },
                        6 => Op::AddAssign(self.short_text()),
                        _ => Op::Add(self.short_text()),
                    },
                    Pop => Op::Pop { try_ },
                    Remove => Op::Remove { idx: self.index_in(&text, false), try_ },
                    Insert => {
                        let idx = self.index_in(&text, true);
                        if self.rng.chance(1, 2) {
                            Op::Insert { idx, ch: self.ch(), try_ }
                        } else {
                            Op::InsertStr { idx, s: self.short_text(), try_ }
                        }
                    }
                    Truncate => {
                        let len = if self.rng.chance(1, 8) { text.len() + self.rng.below(3) } else { self.index_in(&text, true) };
                        Op::Truncate { len, try_ }
                    }
                    Clear => Op::Clear,
                    Retain => {
                        let n = text.chars().count();
                        let mask = match self.rng.below(4) {
                            0 => u64::MAX,
                            1 => 0,
                            _ => self.rng.next_u64(),
                        };
                        Op::Retain { mask, panic_at: self.panic_at(n.saturating_sub(1)), try_ }
                    }
                    Reserve => Op::Reserve { n: self.size(text.len()), try_ },
                    Shrink => {
                        if self.rng.chance(1, 2) {
                            Op::ShrinkToFit { try_ }
                        } else {
                            Op::ShrinkTo { n: self.size(text.len()), try_ }
                        }
                    }
                    Extend => {
                        if self.rng.chance(1, 5) {
                            let k = self.rng.range(1, 3);
                            let srcs = (0..k).map(|_| self.pick_slot(models, true)).collect();
                            Op::ExtendSlots { srcs }
                        } else {
                            let kind = *self.rng.pick(&ITEM_KINDS);
                            let items = self.items(kind);
                            let n = units(kind, &items);
                            Op::Extend { kind, hint: self.hint(), panic_at: self.panic_at(n), items }
                        }
                    }
                    _ => {
                        let pieces = self.items(ItemKind::Str);
                        let n = pieces.len() + 1;
                        let fail_at = if self.rng.chance(1, 6) { Some(self.rng.below(n)) } else { None };
                        Op::Write { panic_at: self.panic_at(n), pieces, fail_at }
                    }
                };
                (slot, op)
            }
        };
        let mut st = Step::new(slot, op);
        if self.cfg.faults.alloc_fail_pm > 0 && self.rng.below(1000) < self.cfg.faults.alloc_fail_pm as usize {
            st.fail_req.push(*self.rng.pick(&[0usize, 0, 0, 1, 1, 2]));
        }
        st
    }
}

fn units(kind: ItemKind, items: &[String]) -> usize {
    super::exec::units(kind, items).len()
}
