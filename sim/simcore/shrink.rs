//! Minimisation before reporting: delta debugging over the explicit step list, then argument
//! simplification, keeping a candidate only if the *same violation class* recurs.

use super::ops::*;
use super::run::{Explicit, RunOpts, Violation, run_case};

pub fn run_explicit(case: &Case, opts: &RunOpts) -> super::run::RunReport {
    let mut src = Explicit { steps: &case.steps, at: 0 };
    run_case(case.slots, &case.heap, &case.fail_run_req, &mut src, opts)
}

fn same_class(case: &Case, want: &Violation, opts: &RunOpts, budget: &mut usize) -> Option<Violation> {
    if *budget == 0 {
        return None;
    }
    *budget -= 1;
    let r = run_explicit(case, opts);
    match r.violation {
        Some(v) if v.invariant == want.invariant && v.props == want.props && v.op == want.op => Some(v),
        _ => None,
    }
}

fn simplify_text(s: &str) -> Vec<String> {
    let mut out = Vec::new();
    if s.is_empty() {
        return out;
    }
    let n = s.chars().count();
    // keep the byte length (layout matters) but make it ASCII
    if !s.is_ascii() {
        out.push("a".repeat(s.len()));
    }
    if n > 1 {
        out.push(s.chars().take(n / 2).collect());
        out.push(s.chars().take(n - 1).collect());
    }
    out
}

fn simplify_op(op: &Op) -> Vec<Op> {
    let mut out = Vec::new();
    let mut texts = |s: &String, mk: &dyn Fn(String) -> Op| {
        for t in simplify_text(s) {
            out.push(mk(t));
        }
    };
    match op {
        Op::FromStr(s) => texts(s, &Op::FromStr),
        Op::FromString(s) => {
            out.push(Op::FromStr(s.clone()));
        }
        Op::FromRefString(s) | Op::FromBoxStr(s) | Op::FromCowBorrowed(s) | Op::FromCowOwned(s) | Op::Parse(s) => {
            out.push(Op::FromStr(s.clone()));
        }
        Op::PushStr { s, try_ } => {
            let t = *try_;
            texts(s, &move |x| Op::PushStr { s: x, try_: t })
        }
        Op::InsertStr { idx, s, try_ } => {
            let (i, t) = (*idx, *try_);
            texts(s, &move |x| Op::InsertStr { idx: i, s: x, try_: t })
        }
        Op::AddAssign(s) | Op::Add(s) => out.push(Op::PushStr { s: s.clone(), try_: false }),
        Op::Extend { kind, items, hint, panic_at } if items.len() > 1 => {
            out.push(Op::Extend { kind: *kind, items: items[..items.len() / 2].to_vec(), hint: *hint, panic_at: *panic_at });
            out.push(Op::Extend { kind: *kind, items: items[..items.len() - 1].to_vec(), hint: *hint, panic_at: *panic_at });
        }
        Op::Collect { kind, items, hint, panic_at } if items.len() > 1 => {
            out.push(Op::Collect { kind: *kind, items: items[..items.len() / 2].to_vec(), hint: *hint, panic_at: *panic_at });
            out.push(Op::Collect { kind: *kind, items: items[..items.len() - 1].to_vec(), hint: *hint, panic_at: *panic_at });
        }
        Op::Reserve { n, try_ } if *n > 1 => {
            out.push(Op::Reserve { n: n / 2, try_: *try_ });
            out.push(Op::Reserve { n: 1, try_: *try_ });
        }
        _ => {}
    }
    out
}

/// Returns the minimised case and the violation it produces.
pub fn minimise(case: &Case, want: &Violation, opts: &RunOpts) -> (Case, Violation) {
    let mut best = case.clone();
    let mut best_v = want.clone();
    let mut budget = 3000usize;
    // nothing after the violating step matters
    if want.step + 1 < best.steps.len() {
        let mut c = best.clone();
        c.steps.truncate(want.step + 1);
        if let Some(v) = same_class(&c, want, opts, &mut budget) {
            best = c;
            best_v = v;
        }
    }
    // drop chunks of steps, halving the chunk size
    let mut chunk = (best.steps.len() / 2).max(1);
    while chunk >= 1 && budget > 0 {
        let mut i = 0;
        let mut progressed = false;
        while i < best.steps.len() && budget > 0 {
            let mut c = best.clone();
            let end = (i + chunk).min(c.steps.len());
            c.steps.drain(i..end);
            if !c.steps.is_empty() {
                if let Some(v) = same_class(&c, want, opts, &mut budget) {
                    best = c;
                    best_v = v;
                    progressed = true;
                    continue;
                }
            }
            i += chunk;
        }
        if chunk == 1 && !progressed {
            break;
        }
        if chunk > 1 {
            chunk /= 2;
        }
    }
    // drop planned faults
    for i in 0..best.steps.len() {
        if !best.steps[i].fail_req.is_empty() {
            let mut c = best.clone();
            c.steps[i].fail_req.clear();
            if let Some(v) = same_class(&c, want, opts, &mut budget) {
                best = c;
                best_v = v;
            }
        }
        if best.steps[i].op.callback_panic_at().is_some() {
            let mut c = best.clone();
            c.steps[i].op.set_callback_panic_at(None);
            if let Some(v) = same_class(&c, want, opts, &mut budget) {
                best = c;
                best_v = v;
            }
        }
    }
    if !best.fail_run_req.is_empty() {
        let mut c = best.clone();
        c.fail_run_req.clear();
        if let Some(v) = same_class(&c, want, opts, &mut budget) {
            best = c;
            best_v = v;
        }
    }
    // simplify arguments
    let mut changed = true;
    while changed && budget > 0 {
        changed = false;
        for i in 0..best.steps.len() {
            for alt in simplify_op(&best.steps[i].op) {
                let mut c = best.clone();
                c.steps[i].op = alt;
                if let Some(v) = same_class(&c, want, opts, &mut budget) {
                    best = c;
                    best_v = v;
                    changed = true;
                    break;
                }
            }
        }
    }
    // fewer slots
    let used = best
        .steps
        .iter()
        .map(|s| {
            let mut m = s.slot;
            match &s.op {
                Op::Clone { src } | Op::CloneFrom { src } | Op::FromRef { src } | Op::ToLean { src: ToLeanSrc::Slot(src), .. } => m = m.max(*src),
                Op::ExtendSlots { srcs } => m = srcs.iter().fold(m, |a, b| a.max(*b)),
                _ => {}
            }
            m
        })
        .max()
        .unwrap_or(0);
    if used + 1 < best.slots {
        let mut c = best.clone();
        c.slots = used + 1;
        if let Some(v) = same_class(&c, want, opts, &mut budget) {
            best = c;
            best_v = v;
        }
    }
    (best, best_v)
}
