//! One integer decides everything: SplitMix64 seeding + xoshiro256** streams.
//! Own implementation so native and Miri executions draw identical values.

#[derive(Clone, Debug)]
pub struct Rng {
    s: [u64; 4],
}

#[inline]
pub fn splitmix(x: &mut u64) -> u64 {
    *x = x.wrapping_add(0x9E37_79B9_7F4A_7C15);
    let mut z = *x;
    z = (z ^ (z >> 30)).wrapping_mul(0xBF58_476D_1CE4_E5B9);
    z = (z ^ (z >> 27)).wrapping_mul(0x94D0_49BB_1331_11EB);
    z ^ (z >> 31)
}

/// Derive an independent stream id from (seed, domain, index).
pub fn mix(seed: u64, domain: u64, index: u64) -> u64 {
    let mut x = seed ^ 0xD1B5_4A32_D192_ED03;
    let a = splitmix(&mut x);
    x ^= domain.wrapping_mul(0xA076_1D64_78BD_642F);
    let b = splitmix(&mut x);
    x ^= index.wrapping_mul(0xE703_7ED1_A0B4_28DB);
    let c = splitmix(&mut x);
    a ^ b.rotate_left(21) ^ c.rotate_left(42)
}

/// FNV-1a of a domain name, used as the `domain` of `mix`.
pub fn domain(name: &str) -> u64 {
    let mut h = 0xcbf2_9ce4_8422_2325u64;
    for b in name.bytes() {
        h ^= b as u64;
        h = h.wrapping_mul(0x0000_0100_0000_01B3);
    }
    h
}

impl Rng {
    pub fn new(seed: u64) -> Self {
        let mut x = seed;
        let s = [splitmix(&mut x), splitmix(&mut x), splitmix(&mut x), splitmix(&mut x)];
        Rng { s }
    }

    #[inline]
    pub fn next_u64(&mut self) -> u64 {
        let r = self.s[1].wrapping_mul(5).rotate_left(7).wrapping_mul(9);
        let t = self.s[1] << 17;
        self.s[2] ^= self.s[0];
        self.s[3] ^= self.s[1];
        self.s[1] ^= self.s[2];
        self.s[0] ^= self.s[3];
        self.s[2] ^= t;
        self.s[3] = self.s[3].rotate_left(45);
        r
    }

    /// Uniform in 0..n (n > 0).
    #[inline]
    pub fn below(&mut self, n: usize) -> usize {
        debug_assert!(n > 0);
        ((self.next_u64() as u128 * n as u128) >> 64) as usize
    }

    /// Uniform in lo..=hi.
    #[inline]
    pub fn range(&mut self, lo: usize, hi: usize) -> usize {
        let (lo, hi) = if hi < lo { (hi, lo) } else { (lo, hi) };
        lo + self.below(hi - lo + 1)
    }

    /// True with probability num/den.
    #[inline]
    pub fn chance(&mut self, num: usize, den: usize) -> bool {
        self.below(den) < num
    }

    pub fn pick<'a, T>(&mut self, xs: &'a [T]) -> &'a T {
        &xs[self.below(xs.len())]
    }

    /// Index drawn according to integer weights (sum > 0).
    pub fn weighted(&mut self, w: &[u32]) -> usize {
        let total: u64 = w.iter().map(|x| *x as u64).sum();
        debug_assert!(total > 0);
        let mut r = ((self.next_u64() as u128 * total as u128) >> 64) as u64;
        for (i, x) in w.iter().enumerate() {
            if r < *x as u64 {
                return i;
            }
            r -= *x as u64;
        }
        w.len() - 1
    }
}

/// FNV-style running digest used for trace digests and fingerprints (no addresses ever enter it).
#[derive(Clone, Copy, Debug)]
pub struct Digest(pub u64);

impl Digest {
    pub fn new() -> Self {
        Digest(0xcbf2_9ce4_8422_2325)
    }
    #[inline]
    pub fn byte(&mut self, b: u8) {
        self.0 ^= b as u64;
        self.0 = self.0.wrapping_mul(0x0000_0100_0000_01B3);
    }
    pub fn bytes(&mut self, bs: &[u8]) {
        for b in bs {
            self.byte(*b);
        }
        self.u64(bs.len() as u64);
    }
    pub fn u64(&mut self, v: u64) {
        for b in v.to_le_bytes() {
            self.byte(b);
        }
    }
    pub fn str(&mut self, s: &str) {
        self.bytes(s.as_bytes())
    }
    pub fn finish(&self) -> u64 {
        let mut x = self.0;
        splitmix(&mut x)
    }
}
