//! schedsim: seeded thread-schedule simulator for C04.
//!
//! The crate is built with cfg(loom) (atomics = the simulator's own `loom` shim) and verif-hooks
//! (allocator = shadow heap). Threads are shuttle continuations on one OS thread; *this* file's
//! `SeededScheduler` decides who runs at every atomic operation, fence, allocator call and harness
//! read window, and records every choice, so a schedule is a list of small integers.
//!
//!   schedsim batch  --tier T --seed N --jobs J --outdir D --replay-dir R
//!   schedsim worker --seed N --offset K --stride S --limit L --schedules M --out F --progress F
//!   schedsim replay FILE
//!
//! Exit codes: 0 held, 1 violation, 2 harness error.

#[path = "../../simcore/mod.rs"]
mod simcore;

use serde::{Deserialize, Serialize};
use shuttle::scheduler::{Schedule, Scheduler, Task, TaskId};
use simcore::conc::{self, ConcViolation, Program};
use simcore::heap;
use simcore::heapcfg::{HeapCfg, ReallocPolicy};
use simcore::rng::{Digest, Rng, domain, mix};
use std::collections::{BTreeMap, BTreeSet};
use std::process::{Command, Stdio};
use std::sync::atomic::{AtomicBool, AtomicUsize, Ordering};
use std::sync::{Arc, Mutex};
use std::time::{Duration, Instant};

// ------------------------------------------------------------------------------------------------
// scheduler

#[derive(Clone, Copy, Debug, PartialEq, Eq, Serialize, Deserialize)]
enum Strategy {
    Random,
    Sticky,
    Pct,
}

const POINT_KINDS: [&str; 9] = ["load", "fetch_add", "fetch_sub", "fence", "alloc", "realloc", "dealloc", "read", "other"];

struct SchedState {
    /// schedules still to run for the current program
    left: usize,
    exec_index: u64,
    base_seed: u64,
    rng: Rng,
    strategy: Strategy,
    sticky_pm: usize,
    /// choices made in the current / last execution
    choices: Vec<u8>,
    /// when replaying: the recorded choices (followed while possible)
    replay: Option<Vec<u8>>,
    steps: u64,
    last_len: usize,
    // PCT
    prio: BTreeMap<usize, u64>,
    change_points: Vec<usize>,
    // stats
    preemptions: [u64; POINT_KINDS.len()],
    preempted_this_exec: u32,
    total_steps: u64,
    executions: u64,
    stop: bool,
}

static SCHED: Mutex<Option<SchedState>> = Mutex::new(None);
static LAST_POINT: AtomicUsize = AtomicUsize::new(POINT_KINDS.len() - 1);
static IN_EXECUTION: AtomicBool = AtomicBool::new(false);

fn sched<R>(f: impl FnOnce(&mut SchedState) -> R) -> R {
    let mut g = SCHED.lock().unwrap_or_else(|e| e.into_inner());
    f(g.as_mut().expect("scheduler state"))
}

/// The scheduling point: called by the atomics shim, by the allocator hooks and by read windows.
fn switch_point(what: &'static str) {
    if IN_EXECUTION.load(Ordering::Relaxed) {
        let k = POINT_KINDS.iter().position(|x| *x == what).unwrap_or(POINT_KINDS.len() - 1);
        LAST_POINT.store(k, Ordering::Relaxed);
        shuttle_engine::runtime::thread::switch();
        LAST_POINT.store(POINT_KINDS.len() - 1, Ordering::Relaxed);
    }
}

struct SeededScheduler;

impl Scheduler for SeededScheduler {
    fn new_execution(&mut self) -> Option<Schedule> {
        sched(|s| {
            if s.stop || s.left == 0 || conc::violation().is_some() {
                return None;
            }
            s.left -= 1;
            s.last_len = s.choices.len().max(s.last_len / 2);
            s.choices.clear();
            s.preempted_this_exec = 0;
            s.steps = 0;
            s.rng = Rng::new(mix(s.base_seed, domain("schedule"), s.exec_index));
            s.exec_index += 1;
            s.executions += 1;
            s.strategy = match s.rng.below(10) {
                0..=3 => Strategy::Random,
                4..=6 => Strategy::Sticky,
                _ => Strategy::Pct,
            };
            s.sticky_pm = *s.rng.pick(&[500usize, 750, 900]);
            s.prio.clear();
            let d = s.rng.range(1, 3);
            let horizon = s.last_len.max(20);
            s.change_points = (0..d).map(|_| s.rng.below(horizon)).collect();
            Some(Schedule::new(s.base_seed))
        })
    }

    fn next_task(&mut self, runnable: &[&Task], current: Option<TaskId>, _is_yielding: bool) -> Option<TaskId> {
        let ids: Vec<usize> = runnable.iter().map(|t| usize::from(t.id())).collect();
        let cur = current.map(usize::from);
        let choice = sched(|s| {
            let step = s.choices.len();
            let cur_runnable = cur.is_some_and(|c| ids.contains(&c));
            let pick = if let Some(rep) = &s.replay {
                match rep.get(step).map(|x| *x as usize) {
                    Some(want) if ids.contains(&want) => want,
                    _ => {
                        if cur_runnable { cur.unwrap() } else { ids[0] }
                    }
                }
            } else {
                match s.strategy {
                    Strategy::Random => ids[s.rng.below(ids.len())],
                    Strategy::Sticky => {
                        if cur_runnable && s.rng.below(1000) < s.sticky_pm {
                            cur.unwrap()
                        } else {
                            ids[s.rng.below(ids.len())]
                        }
                    }
                    Strategy::Pct => {
                        for id in &ids {
                            if !s.prio.contains_key(id) {
                                let p = 1_000_000 + s.rng.below(1_000_000) as u64;
                                s.prio.insert(*id, p);
                            }
                        }
                        if s.change_points.contains(&step) {
                            if let Some(c) = cur {
                                // demote the running task below everything else
                                let low = step as u64;
                                s.prio.insert(c, low);
                            }
                        }
                        *ids.iter().max_by_key(|id| s.prio[id]).unwrap()
                    }
                }
            };
            if cur_runnable && Some(pick) != cur {
                s.preemptions[LAST_POINT.load(Ordering::Relaxed)] += 1;
                s.preempted_this_exec += 1;
            }
            s.choices.push(pick as u8);
            s.steps += 1;
            s.total_steps += 1;
            pick
        });
        Some(TaskId::from(choice))
    }

    fn next_u64(&mut self) -> u64 {
        sched(|s| s.rng.next_u64())
    }
}

// ------------------------------------------------------------------------------------------------
// executing one program under many schedules

fn heap_cfg_for(index: u64) -> HeapCfg {
    HeapCfg {
        limit: 1 << 26,
        policy: [ReallocPolicy::AlwaysMove, ReallocPolicy::InPlaceWhenFits, ReallocPolicy::Random][(index % 3) as usize],
        slack: [0usize, 64][((index / 3) % 2) as usize],
        rng_seed: index,
    }
}

fn exec_once(prog: &Arc<Program>, hc: &HeapCfg) {
    heap::begin_run(hc.clone());
    IN_EXECUTION.store(true, Ordering::Relaxed);
    conc::execute(prog);
    IN_EXECUTION.store(false, Ordering::Relaxed);
    let (live, hv) = heap::end_run();
    simcore::exec::Arena::get().restore();
    if conc::violation().is_none() {
        if let Some(hv) = hv {
            conc::report_external(ConcViolation { invariant: hv.kind.into(), thread: 0, op_index: usize::MAX, op: "allocator".into(), detail: hv.detail });
        } else if live != 0 {
            conc::report_external(ConcViolation {
                invariant: "leaked_block".into(),
                thread: 0,
                op_index: usize::MAX,
                op: "end_of_execution".into(),
                detail: format!("{live} block(s) still allocated after all threads were joined and every handle dropped"),
            });
        }
    }
}

fn shuttle_config() -> shuttle::Config {
    let mut c = shuttle::Config::new();
    c.stack_size = 1 << 20;
    c.failure_persistence = shuttle::FailurePersistence::None;
    c.max_steps = shuttle::MaxSteps::FailAfter(200_000);
    c.silence_warnings = true;
    c
}

struct ProgramResult {
    executions: u64,
    violation: Option<(ConcViolation, Vec<u8>)>,
    distinct_schedules: BTreeSet<u64>,
    preempting_schedules: BTreeSet<u64>,
}

/// Run `prog` under `n` seeded schedules (or one recorded schedule). Stops at the first violation.
fn run_program(prog: &Program, index: u64, seed: u64, n: usize, replay: Option<Vec<u8>>) -> ProgramResult {
    conc::reset_violation();
    let hashes: Arc<Mutex<(BTreeSet<u64>, BTreeSet<u64>)>> = Arc::new(Mutex::new(Default::default()));
    sched(|s| {
        s.left = n;
        s.exec_index = 0;
        s.base_seed = mix(seed, domain("program-schedules"), index);
        s.replay = replay;
        s.stop = false;
        s.last_len = 0;
        s.choices.clear();
    });
    let before = sched(|s| s.executions);
    let prog = Arc::new(prog.clone());
    let hc = heap_cfg_for(index);
    let h2 = Arc::clone(&hashes);
    let runner = shuttle::Runner::new(SeededScheduler, shuttle_config());
    let r = std::panic::catch_unwind(std::panic::AssertUnwindSafe(|| {
        runner.run(move || {
            exec_once(&prog, &hc);
            // executed inside the execution's main task, after everything was joined
            let (h, pre) = sched(|s| {
                let mut d = Digest::new();
                d.bytes(&s.choices);
                (d.finish(), s.preempted_this_exec)
            });
            let mut g = h2.lock().unwrap();
            g.0.insert(h);
            if pre > 0 {
                g.1.insert(h);
            }
        })
    }));
    IN_EXECUTION.store(false, Ordering::Relaxed);
    if r.is_err() && conc::violation().is_none() {
        conc::report_external(ConcViolation {
            invariant: "engine_panic".into(),
            thread: 0,
            op_index: 0,
            op: "runner".into(),
            detail: "the execution engine panicked (deadlock, step limit or a panic outside the guarded thread bodies)".into(),
        });
    }
    let executions = sched(|s| s.executions) - before;
    let choices = sched(|s| s.choices.clone());
    let g = hashes.lock().unwrap();
    ProgramResult {
        executions,
        violation: conc::violation().map(|v| (v, choices)),
        distinct_schedules: g.0.clone(),
        preempting_schedules: g.1.clone(),
    }
}

// ------------------------------------------------------------------------------------------------
// minimisation

fn program_candidates(p: &Program) -> Vec<Program> {
    let mut out = Vec::new();
    // drop a whole thread
    if p.threads.len() > 1 {
        for t in 0..p.threads.len() {
            let mut q = p.clone();
            q.threads.remove(t);
            out.push(q);
        }
    }
    for t in 0..p.threads.len() {
        for k in 0..p.threads[t].ops.len() {
            let mut q = p.clone();
            q.threads[t].ops.remove(k);
            out.push(q);
        }
        if p.threads[t].pre_truncate.is_some() {
            let mut q = p.clone();
            q.threads[t].pre_truncate = None;
            out.push(q);
        }
    }
    for k in 0..p.main_ops.len() {
        let mut q = p.clone();
        q.main_ops.remove(k);
        out.push(q);
    }
    if p.extra_holders > 0 {
        let mut q = p.clone();
        q.extra_holders -= 1;
        out.push(q);
    }
    if p.shared_ref && !p.shared_only && !p.threads.iter().any(|t| t.from_shared) {
        let mut q = p.clone();
        q.shared_ref = false;
        out.push(q);
    }
    if !p.fail_req.is_empty() {
        let mut q = p.clone();
        q.fail_req.clear();
        out.push(q);
    }
    out
}

fn minimise(prog: &Program, index: u64, seed: u64, v: &ConcViolation, choices: Vec<u8>) -> (Program, Vec<u8>, ConcViolation) {
    let mut best = (prog.clone(), choices, v.clone());
    let mut budget = 60usize;
    let mut progress = true;
    while progress && budget > 0 {
        progress = false;
        for cand in program_candidates(&best.0) {
            if budget == 0 {
                break;
            }
            budget -= 1;
            let r = run_program(&cand, index, seed, 400, None);
            if let Some((v2, ch)) = r.violation {
                if v2.invariant == best.2.invariant {
                    best = (cand, ch, v2);
                    progress = true;
                    break;
                }
            }
        }
    }
    // fewer context switches: relabel one run of choices at a time to the task before it and let
    // the tolerant replayer follow as far as it can
    let mut attempts = 120usize;
    let mut i = 1;
    while i < best.1.len() && attempts > 0 {
        if best.1[i] != best.1[i - 1] {
            let mut cand = best.1.clone();
            let t = cand[i];
            let mut j = i;
            while j < cand.len() && cand[j] == t {
                cand[j] = cand[i - 1];
                j += 1;
            }
            attempts -= 1;
            let r = run_program(&best.0, index, seed, 1, Some(cand));
            if let Some((v2, ch)) = r.violation {
                if v2.invariant == best.2.invariant && switches(&ch) < switches(&best.1) {
                    best.1 = ch;
                    best.2 = v2;
                    i = 1;
                    continue;
                }
            }
        }
        i += 1;
    }
    best
}

fn switches(c: &[u8]) -> usize {
    c.windows(2).filter(|w| w[0] != w[1]).count()
}

// ------------------------------------------------------------------------------------------------
// files

#[derive(Clone, Debug, Serialize, Deserialize)]
struct SchedReplay {
    property: String,
    engine: String,
    seed: u64,
    index: u64,
    violation: ConcViolation,
    program: Program,
    schedule: Vec<u8>,
    context_switches: usize,
    original_ops: usize,
}

fn arg<'a>(args: &'a [String], name: &str) -> Option<&'a str> {
    args.iter().position(|a| a == name).and_then(|i| args.get(i + 1)).map(|s| s.as_str())
}

fn need<'a>(args: &'a [String], name: &str) -> &'a str {
    arg(args, name).unwrap_or_else(|| {
        eprintln!("schedsim: missing {name}");
        std::process::exit(2)
    })
}

fn init_engine() {
    heap::install();
    loom::set_switch(Some(switch_point));
    simcore::yieldp::set(Some(switch_point));
    *SCHED.lock().unwrap() = Some(SchedState {
        left: 1,
        exec_index: 0,
        base_seed: 0,
        rng: Rng::new(0),
        strategy: Strategy::Random,
        sticky_pm: 500,
        choices: Vec::new(),
        replay: None,
        steps: 0,
        last_len: 0,
        prio: BTreeMap::new(),
        change_points: Vec::new(),
        preemptions: [0; POINT_KINDS.len()],
        preempted_this_exec: 0,
        total_steps: 0,
        executions: 0,
        stop: false,
    });
    // shuttle installs its own panic hook once, on the first execution; run an empty execution
    // and only then install the silent hook (expected, caught panics are part of the workload)
    shuttle::Runner::new(SeededScheduler, shuttle_config()).run(|| {});
    std::panic::set_hook(Box::new(|_| {}));
    sched(|s| {
        s.executions = 0;
        s.total_steps = 0;
    });
}

fn ops_of(p: &Program) -> usize {
    p.main_ops.len() + p.threads.iter().map(|t| t.ops.len()).sum::<usize>()
}

fn cmd_worker(args: &[String]) -> i32 {
    let seed: u64 = need(args, "--seed").parse().expect("seed");
    let offset: u64 = need(args, "--offset").parse().expect("offset");
    let stride: u64 = need(args, "--stride").parse().expect("stride");
    let limit: u64 = need(args, "--limit").parse().expect("limit");
    let schedules: usize = need(args, "--schedules").parse().expect("schedules");
    let out = need(args, "--out").to_string();
    let long = args.iter().any(|a| a == "--long");
    let mut pf = arg(args, "--progress").map(|p| std::fs::OpenOptions::new().create(true).write(true).truncate(true).open(p).expect("progress"));
    init_engine();
    let mut executions = 0u64;
    let mut programs = 0u64;
    let mut found: Vec<SchedReplay> = Vec::new();
    let mut class_counts: BTreeMap<String, u64> = BTreeMap::new();
    let mut distinct: BTreeSet<u64> = BTreeSet::new();
    let mut nontrivial: BTreeSet<u64> = BTreeSet::new();
    let mut samples = Vec::new();
    let mut faulty_programs = 0u64;
    let mut unwinding_programs = 0u64;
    let mut i = offset;
    while i < limit {
        if let Some(f) = pf.as_mut() {
            use std::os::unix::fs::FileExt;
            let _ = f.write_at(format!("{i:020}\n").as_bytes(), 0);
        }
        let faults = i % 5 == 4;
        let prog = conc::gen_program_sized(seed, i, faults, long && i % 2 == 1);
        if !prog.fail_req.is_empty() {
            faulty_programs += 1;
        }
        let panicking = |ops: &[conc::TOp]| ops.iter().any(|o| matches!(o, conc::TOp::RetainPanic { .. } | conc::TOp::ExtendPanic { .. }));
        if panicking(&prog.main_ops) || prog.threads.iter().any(|t| panicking(&t.ops)) {
            unwinding_programs += 1;
        }
        programs += 1;
        let r = run_program(&prog, i, seed, schedules, None);
        executions += r.executions;
        let ph = conc::program_hash(&prog);
        for h in &r.distinct_schedules {
            distinct.insert(mix(ph, *h, 1));
        }
        for h in &r.preempting_schedules {
            nontrivial.insert(mix(ph, *h, 1));
        }
        if samples.len() < 2 && r.violation.is_none() {
            samples.push(serde_json::json!({"program_index": i, "program": prog, "schedules_run": r.executions,
                "one_schedule": sched(|s| s.choices.clone())}));
        }
        if let Some((v, choices)) = r.violation {
            *class_counts.entry(v.class()).or_insert(0) += 1;
            if found.iter().all(|f| f.violation.class() != v.class()) && found.len() < 4 {
                let original_ops = ops_of(&prog);
                let (mp, mc, mv) = minimise(&prog, i, seed, &v, choices);
                found.push(SchedReplay {
                    property: "C04".into(),
                    engine: "schedsim".into(),
                    seed,
                    index: i,
                    violation: mv,
                    context_switches: switches(&mc),
                    program: mp,
                    schedule: mc,
                    original_ops,
                });
            }
        }
        i += stride;
    }
    let (pre, steps) = sched(|s| (s.preemptions, s.total_steps));
    let c = heap::counters_total();
    let mut fp: Vec<u8> = Vec::new();
    for h in &nontrivial {
        fp.extend_from_slice(&h.to_le_bytes());
    }
    std::fs::write(format!("{out}.fp"), fp).expect("write fp");
    let pre_map: BTreeMap<&str, u64> = POINT_KINDS.iter().copied().zip(pre.iter().copied()).collect();
    let j = serde_json::json!({
        "programs": programs, "executions": executions, "scheduler_steps": steps,
        "distinct_schedules": distinct.len(), "nontrivial": nontrivial.len(),
        "preemptions_by_point": pre_map, "found": found, "class_counts": class_counts, "samples": samples,
        "programs_with_allocator_faults": faulty_programs,
        "programs_with_a_callback_panicking_inside_a_thread": unwinding_programs,
        "allocator_faults_fired": c,
    });
    std::fs::write(&out, serde_json::to_vec(&j).unwrap()).expect("write out");
    0
}

fn cmd_batch(args: &[String]) -> i32 {
    let tier = arg(args, "--tier").unwrap_or("quick").to_string();
    let seed: u64 = need(args, "--seed").parse().expect("seed");
    let jobs: u64 = arg(args, "--jobs").map(|s| s.parse().expect("jobs")).unwrap_or(16);
    let outdir = need(args, "--outdir").to_string();
    let replay_dir = need(args, "--replay-dir").to_string();
    let thorough = tier == "thorough";
    let programs: u64 = arg(args, "--programs").map(|s| s.parse().expect("programs")).unwrap_or(if thorough { 1_500_000 } else { 60_000 });
    let schedules: usize = arg(args, "--schedules").map(|s| s.parse().expect("schedules")).unwrap_or(if thorough { 300 } else { 150 });
    std::fs::create_dir_all(&outdir).ok();
    std::fs::create_dir_all(&replay_dir).ok();
    let exe = std::env::current_exe().expect("exe");
    let t0 = Instant::now();
    let timeout = Duration::from_secs(if thorough { 3 * 3600 } else { 900 });
    let mut kids = Vec::new();
    for k in 0..jobs {
        let out = format!("{outdir}/sched.{k}.json");
        let prog = format!("{outdir}/sched.{k}.progress");
        let _ = std::fs::remove_file(&out);
        let child = Command::new(&exe)
            .args(["worker", "--seed", &seed.to_string(), "--offset", &k.to_string(), "--stride", &jobs.to_string()])
            .args(["--limit", &programs.to_string(), "--schedules", &schedules.to_string(), "--out", &out, "--progress", &prog])
            .args(if thorough { vec!["--long"] } else { vec![] })
            .stdout(Stdio::null())
            .stderr(Stdio::piped())
            .spawn()
            .expect("spawn worker");
        kids.push((k, child, out, prog));
    }
    let mut sums: BTreeMap<String, u64> = BTreeMap::new();
    let mut pre: BTreeMap<String, u64> = BTreeMap::new();
    let mut class_counts: BTreeMap<String, u64> = BTreeMap::new();
    let mut found: Vec<SchedReplay> = Vec::new();
    let mut samples = Vec::new();
    let mut fps: Vec<u64> = Vec::new();
    let mut crashes = Vec::new();
    for (k, mut child, out, prog) in kids {
        let status = loop {
            match child.try_wait() {
                Ok(Some(s)) => break Some(s),
                Ok(None) => {
                    if t0.elapsed() > timeout {
                        let _ = child.kill();
                        let _ = child.wait();
                        break None;
                    }
                    std::thread::sleep(Duration::from_millis(20));
                }
                Err(_) => break None,
            }
        };
        let ok = status.map(|s| s.success()).unwrap_or(false) && std::path::Path::new(&out).exists();
        if !ok {
            let idx: u64 = std::fs::read_to_string(&prog).ok().and_then(|s| s.trim().parse().ok()).unwrap_or(k);
            let mut err = String::new();
            if let Some(mut e) = child.stderr.take() {
                use std::io::Read;
                let _ = e.read_to_string(&mut err);
            }
            crashes.push((idx, if status.is_none() { "hang" } else { "crash" }, format!("{status:?}"), err));
            continue;
        }
        let j: serde_json::Value = serde_json::from_slice(&std::fs::read(&out).unwrap()).expect("worker json");
        for key in ["programs", "executions", "scheduler_steps", "distinct_schedules", "programs_with_allocator_faults", "programs_with_a_callback_panicking_inside_a_thread"] {
            *sums.entry(key.into()).or_insert(0) += j[key].as_u64().unwrap_or(0);
        }
        if let Some(o) = j["preemptions_by_point"].as_object() {
            for (k, v) in o {
                *pre.entry(k.clone()).or_insert(0) += v.as_u64().unwrap_or(0);
            }
        }
        if let Some(o) = j["class_counts"].as_object() {
            for (k, v) in o {
                *class_counts.entry(k.clone()).or_insert(0) += v.as_u64().unwrap_or(0);
            }
        }
        if let Some(o) = j["allocator_faults_fired"].as_u64() {
            *sums.entry("allocator_faults_fired".into()).or_insert(0) += o;
        }
        if let Some(a) = j["found"].as_array() {
            for f in a {
                found.push(serde_json::from_value(f.clone()).expect("found"));
            }
        }
        if let Some(a) = j["samples"].as_array() {
            if samples.len() < 3 {
                samples.extend(a.iter().take(1).cloned());
            }
        }
        if let Ok(b) = std::fs::read(format!("{out}.fp")) {
            fps.extend(b.chunks_exact(8).map(|c| u64::from_le_bytes(c.try_into().unwrap())));
        }
    }
    fps.sort_unstable();
    fps.dedup();
    // one replay file per violation class: the one with the fewest operations, then switches
    let mut by_class: BTreeMap<String, SchedReplay> = BTreeMap::new();
    for f in found {
        let c = f.violation.class();
        let better = match by_class.get(&c) {
            None => true,
            Some(o) => (ops_of(&f.program), f.context_switches) < (ops_of(&o.program), o.context_switches),
        };
        if better {
            by_class.insert(c, f);
        }
    }
    let mut violations = Vec::new();
    for (class, f) in &by_class {
        let mut h = Digest::new();
        h.str(class);
        let path = format!("{replay_dir}/C04-schedsim-{}-{}-{:08x}.json", f.seed, f.index, h.finish() as u32);
        std::fs::write(&path, serde_json::to_vec_pretty(f).unwrap()).expect("write replay");
        violations.push(serde_json::json!({"class": class, "count": class_counts.get(class), "replay": path,
            "violation": {"invariant": f.violation.invariant, "op": f.violation.op, "target": format!("thread {}", f.violation.thread),
                          "fault": if f.program.fail_req.is_empty() { "none" } else { "alloc_null" }, "detail": f.violation.detail},
            "minimised_ops": ops_of(&f.program), "original_ops": f.original_ops, "context_switches": f.context_switches}));
    }
    for (idx, class, status, err) in &crashes {
        let path = format!("{replay_dir}/C04-schedsim-{seed}-{idx}-{class}.json");
        let prog = conc::gen_program_sized(seed, *idx, idx % 5 == 4, thorough && idx % 2 == 1);
        let f = SchedReplay {
            property: "C04".into(),
            engine: "schedsim".into(),
            seed,
            index: *idx,
            violation: ConcViolation { invariant: format!("worker_{class}"), thread: 0, op_index: 0, op: "unknown".into(), detail: format!("{status}; stderr tail: {}", err.chars().rev().take(300).collect::<String>().chars().rev().collect::<String>()) },
            program: prog,
            schedule: Vec::new(),
            context_switches: 0,
            original_ops: 0,
        };
        std::fs::write(&path, serde_json::to_vec_pretty(&f).unwrap()).expect("write replay");
        violations.push(serde_json::json!({"class": format!("worker_{class}"), "count": 1, "replay": path,
            "violation": {"invariant": format!("worker_{class}"), "op": "unknown", "target": "unknown", "fault": "unknown", "detail": f.violation.detail}}));
    }
    let total = serde_json::json!({
        "property": "C04", "tier": tier, "seed": seed, "engine": "schedsim",
        "sums": sums, "distinct_nontrivial": fps.len(), "preemptions_by_point": pre, "class_counts": class_counts,
        "violations": violations, "samples": samples, "schedules_per_program": schedules, "wall_s": t0.elapsed().as_secs_f64(),
    });
    let summary = format!("{outdir}/summary.json");
    std::fs::write(&summary, serde_json::to_vec_pretty(&total).unwrap()).expect("write summary");
    println!("{summary}");
    if violations.is_empty() { 0 } else { 1 }
}

fn cmd_replay(args: &[String]) -> i32 {
    let path = args.get(1).cloned().unwrap_or_default();
    let f: SchedReplay = match std::fs::read(&path).ok().and_then(|b| serde_json::from_slice(&b).ok()) {
        Some(f) => f,
        None => {
            eprintln!("schedsim: cannot read replay file {path}");
            return 2;
        }
    };
    init_engine();
    let r = if f.schedule.is_empty() {
        // a crashed/hung worker: run the program again the way the worker did
        run_program(&f.program, f.index, f.seed, 400, None)
    } else {
        run_program(&f.program, f.index, f.seed, 1, Some(f.schedule.clone()))
    };
    match r.violation {
        Some((v, choices)) => {
            let same = v.invariant == f.violation.invariant;
            println!(
                "{}: {} in thread {} at op {} ({}): {}",
                if same { "reproduced" } else { "a different violation occurred" },
                v.invariant,
                v.thread,
                v.op_index,
                v.op,
                v.detail
            );
            println!("schedule executed: {:?} (recorded: {:?})", choices, f.schedule);
            println!("VIOLATION property=C04 replay={path}");
            1
        }
        None => {
            println!("not reproduced: the recorded program and schedule run clean on this tree");
            0
        }
    }
}

fn main() {
    let args: Vec<String> = std::env::args().skip(1).collect();
    let code = match args.first().map(|s| s.as_str()) {
        Some("worker") => cmd_worker(&args),
        Some("batch") => cmd_batch(&args),
        Some("replay") => cmd_replay(&args),
        Some("gen") => {
            // print program number --index of seed --seed as JSON (used to minimise Miri findings)
            let seed: u64 = need(&args, "--seed").parse().expect("seed");
            let index: u64 = need(&args, "--index").parse().expect("index");
            println!("{}", serde_json::to_string(&conc::gen_program(seed, index, false)).unwrap());
            0
        }
        _ => {
            eprintln!("usage: schedsim batch|worker|replay|gen ...");
            2
        }
    };
    std::process::exit(code);
}
