//! mirisim: the unhooked crate under Miri's seeded scheduler, weak-memory emulation and
//! happens-before data-race detector. One `-Zmiri-seed` is one exactly repeatable execution.
//!
//!   mirisim conc --seed N --from A --to B          programs A..B of the C04 generator, real threads
//!   mirisim conc-json '<program json>'             one explicit program (replay of a minimised one)
//!   mirisim hist --seed N --from A --to B --prop P [--faulting] [--steps K]
//!                                                  single-threaded histories of histsim's generator
//!
//! A violation found by the value oracles exits with status 1 after printing `VIOLATION-DETAIL`;
//! undefined behaviour, data races and leaks are reported by Miri itself.

#[path = "../../simcore/mod.rs"]
mod simcore;

use simcore::conc;
use std::sync::Arc;

fn arg<'a>(args: &'a [String], name: &str) -> Option<&'a str> {
    args.iter().position(|a| a == name).and_then(|i| args.get(i + 1)).map(|s| s.as_str())
}

fn run_conc(p: conc::Program, label: &str) -> i32 {
    println!("PROGRAM {label}");
    conc::reset_violation();
    let p = Arc::new(p);
    conc::execute(&p);
    if let Some(v) = conc::violation() {
        println!("VIOLATION-DETAIL {}", serde_json::to_string(&v).unwrap());
        println!("PROGRAM-JSON {}", serde_json::to_string(&*p).unwrap());
        return 1;
    }
    0
}

fn main() {
    let args: Vec<String> = std::env::args().skip(1).collect();
    if !args.iter().any(|a| a == "--verbose") {
        std::panic::set_hook(Box::new(|_| {}));
    }
    let code = match args.first().map(|s| s.as_str()) {
        Some("conc") => {
            let seed: u64 = arg(&args, "--seed").unwrap_or("20261003").parse().unwrap();
            let from: u64 = arg(&args, "--from").unwrap_or("0").parse().unwrap();
            let to: u64 = arg(&args, "--to").unwrap_or("1").parse().unwrap();
            let mut code = 0;
            for i in from..to {
                let p = conc::gen_program(seed, i, false);
                code = run_conc(p, &i.to_string());
                if code != 0 {
                    break;
                }
            }
            code
        }
        Some("conc-json") => {
            let p: conc::Program = serde_json::from_str(&args[1]).expect("program json");
            run_conc(p, "json")
        }
        Some("hist") => {
            let seed: u64 = arg(&args, "--seed").unwrap_or("20261003").parse().unwrap();
            let from: u64 = arg(&args, "--from").unwrap_or("0").parse().unwrap();
            let to: u64 = arg(&args, "--to").unwrap_or("1").parse().unwrap();
            let prop = arg(&args, "--prop").unwrap_or("C01").to_string();
            let workload = if args.iter().any(|a| a == "--faulting") { "histf" } else { "hist" };
            let mut code = 0;
            for i in from..to {
                println!("HISTORY {i}");
                let spec = simcore::work::WorkSpec {
                    workload: workload.to_string(),
                    prop: prop.clone(),
                    seed,
                    offset: i,
                    stride: 1,
                    limit: i + 1,
                    thorough: false,
                    want_digests: false,
                };
                let mut w = simcore::work::Worker::new(&spec);
                w.no_minimise = true;
                w.steps_cap = arg(&args, "--steps").map(|s| s.parse().unwrap());
                w.run(&mut |_| {});
                if let Some(f) = w.agg.found.first() {
                    println!("VIOLATION-DETAIL {}", serde_json::to_string(&f.violation).unwrap());
                    println!("REPLAY-JSON {}", serde_json::to_string(f).unwrap());
                    code = 1;
                    break;
                }
                if w.agg.cut_short_other > 0 {
                    // not this check's property: noted, the remaining histories still run
                    println!("OTHER-PROPERTY-VIOLATION in history {i}: {:?}", w.agg.other_props);
                }
            }
            code
        }
        Some("big32") => big32(),
        Some("big32-conc") => big32_conc(),
        #[cfg(feature = "failhooks")]
        Some("big32-fail") => big32_fail(),
        Some("bighist") => {
            let seed: u64 = arg(&args, "--seed").unwrap_or("20261003").parse().unwrap();
            let from: u64 = arg(&args, "--from").unwrap_or("0").parse().unwrap();
            let to: u64 = arg(&args, "--to").unwrap_or("1").parse().unwrap();
            let steps: usize = arg(&args, "--steps").unwrap_or("24").parse().unwrap();
            let mut code = 0;
            for i in from..to {
                println!("BIGHIST {i}");
                code = bighist(seed, i, steps);
                if code != 0 {
                    break;
                }
            }
            code
        }
        Some("big32-min") => {
            // smallest reproducer of the allocation-start confusion: capacity above the 24-bit
            // limit, length below it
            let s = lean_string::LeanString::with_capacity((1 << 24) + 8);
            drop(s);
            println!("big32-min ok");
            0
        }
        _ => {
            eprintln!("usage: mirisim conc|conc-json|hist|big32 ...");
            2
        }
    };
    std::process::exit(code);
}

/// Directed history over strings longer than 2^24 - 2 bytes. On 32-bit targets the length of such a
/// string no longer fits the handle and lives in the heap block, in front of the header; `truncate`
/// and `pop` on a *shared* buffer then have to copy (the only place where they can fail). No random
/// generation here: an interpreter cannot afford per-character work on 17 MB, so every check below is
/// a bulk comparison.
fn big32() -> i32 {
    use lean_string::LeanString;
    const N: usize = (1 << 24) + 1000;
    let mut model = "ab".repeat(N / 2);
    let a = LeanString::from(model.as_str());
    let check = |what: &str, s: &LeanString, m: &str| {
        if s.len() != m.len() || s.as_bytes() != m.as_bytes() || s.capacity() < s.len() {
            println!("VIOLATION-DETAIL {{\"invariant\":\"big32_mismatch\",\"detail\":\"{what}: len {} vs {}\"}}", s.len(), m.len());
            std::process::exit(1);
        }
    };
    check("from", &a, &model);
    assert!(a.is_heap_allocated());
    // shared, then shortened while shared, still above the 24-bit limit: the other owner is untouched
    let mut b = a.clone();
    assert_eq!(a.as_ptr(), b.as_ptr());
    b.truncate(N - 10);
    check("truncate while shared (long)", &b, &model[..N - 10]);
    check("co-owner after truncate", &a, &model);
    // pop on a shared long string
    let mut c = a.clone();
    assert_eq!(c.pop(), Some('b'));
    check("pop while shared", &c, &model[..N - 1]);
    check("co-owner after pop", &a, &model);
    // shortened below the limit while shared: must not touch the length stored in the shared block
    let mut d = a.clone();
    d.truncate(40);
    check("truncate while shared (short)", &d, &model[..40]);
    check("co-owner after short truncate", &a, &model);
    d.push('!');
    check("push after short truncate", &d, &format!("{}!", &model[..40]));
    // unique long string: in-place truncate, push, realloc across the 24-bit limit both ways
    drop(b);
    drop(c);
    drop(d);
    let mut u = a; // sole owner now
    u.truncate(N - 100);
    model.truncate(N - 100);
    check("truncate unique", &u, &model);
    u.push_str("xyz");
    model.push_str("xyz");
    check("push unique", &u, &model);
    u.truncate((1 << 24) - 50);
    model.truncate((1 << 24) - 50);
    u.shrink_to_fit();
    check("shrink below the limit", &u, &model);
    assert_eq!(u.capacity(), u.len());
    u.reserve(1000);
    u.push_str(&"q".repeat(200));
    model.push_str(&"q".repeat(200));
    check("grow across the limit", &u, &model);
    let v = u.clone();
    u.clear();
    check("clear shared", &u, "");
    check("co-owner after clear", &v, &model);
    drop(u);
    let mut w = v.clone();
    w.clone_from(&v);
    check("clone_from", &w, &model);
    w.remove(0);
    check("remove on shared long", &w, &model[1..]);
    check("co-owner after remove", &v, &model);
    println!("big32 ok ({} byte words)", std::mem::size_of::<usize>());
    0
}

/// Seeded random histories over a small pool of handles whose lengths and capacities straddle the
/// 24-bit limit (2^24 - 2), using only operations and checks that work in bulk (an interpreter cannot
/// afford per-character work on 16 MiB). On 32-bit targets this walks every transition between
/// "length in the handle" and "length in the heap block", shared and unshared.
fn bighist(seed: u64, index: u64, steps: usize) -> i32 {
    use lean_string::LeanString;
    use simcore::rng::{Rng, domain, mix};
    const LIMIT: usize = (1 << 24) - 2;
    let mut rng = Rng::new(mix(seed, domain("bighist"), index));
    let mut pool: Vec<Option<(LeanString, String)>> = (0..4).map(|_| None).collect();
    let fail = |what: &str, step: usize| -> i32 {
        println!("VIOLATION-DETAIL {{\"invariant\":\"bighist_mismatch\",\"detail\":\"history {index} step {step}: {what}\"}}");
        1
    };
    let around = |rng: &mut Rng| -> usize {
        match rng.below(6) {
            0 => LIMIT - rng.below(3),
            1 => LIMIT + 1 + rng.below(3),
            2 => LIMIT - 1000 - rng.below(5000),
            3 => LIMIT + 1000 + rng.below(5000),
            4 => rng.range(17, 200),
            _ => LIMIT / 2,
        }
    };
    for step in 0..steps {
        let i = rng.below(pool.len());
        let live: Vec<usize> = (0..pool.len()).filter(|k| pool[*k].is_some()).collect();
        let r = rng.below(if live.is_empty() { 2 } else { 14 });
        let mut what = String::new();
        match r {
            0 => {
                let n = around(&mut rng);
                let unit = *rng.pick(&["ab", "xyz0", "q"]);
                let mut m = unit.repeat(n / unit.len() + 1);
                m.truncate(n);
                what = format!("from(len {n})");
                pool[i] = Some((LeanString::from(m.as_str()), m));
            }
            1 => {
                let n = around(&mut rng);
                what = format!("with_capacity({n}) + push_str");
                let mut s = LeanString::with_capacity(n);
                let m = "w".repeat(rng.range(0, 40));
                s.push_str(&m);
                pool[i] = Some((s, m));
            }
            2 | 3 => {
                let src = live[rng.below(live.len())];
                what = format!("clone {src}->{i}");
                let c = pool[src].as_ref().map(|(s, m)| (s.clone(), m.clone()));
                pool[i] = c;
            }
            4 => {
                what = format!("drop {i}");
                pool[i] = None;
            }
            _ => {
                let t = live[rng.below(live.len())];
                let (s, m) = pool[t].as_mut().unwrap();
                match r {
                    5 | 6 => {
                        let n = match rng.below(4) {
                            0 => around(&mut rng).min(m.len()),
                            1 => m.len().saturating_sub(rng.below(20)),
                            2 => rng.range(0, 40).min(m.len()),
                            _ => m.len().min(LIMIT),
                        };
                        what = format!("truncate({n}) on {t} (len {})", m.len());
                        s.truncate(n);
                        m.truncate(n);
                    }
                    7 => {
                        what = format!("pop on {t}");
                        if s.pop() != m.pop() {
                            return fail("pop returned a different char", step);
                        }
                    }
                    8 => {
                        let n = *rng.pick(&[1usize, 3, 1000, 70_000]);
                        what = format!("push_str({n}) on {t} (len {})", m.len());
                        let add = "p".repeat(n);
                        s.push_str(&add);
                        m.push_str(&add);
                    }
                    9 => {
                        let n = match rng.below(3) {
                            0 => rng.range(0, 100),
                            1 => around(&mut rng).saturating_sub(m.len()),
                            _ => 5000,
                        };
                        what = format!("reserve({n}) on {t} (len {} cap {})", m.len(), s.capacity());
                        s.reserve(n);
                        if s.capacity() < m.len() + n {
                            return fail("reserve postcondition", step);
                        }
                    }
                    10 => {
                        let n = if rng.chance(1, 2) { 0 } else { around(&mut rng) };
                        let before = s.capacity();
                        what = format!("shrink_to({n}) on {t} (len {} cap {before})", m.len());
                        s.shrink_to(n);
                        if s.capacity() > before.max(16) || s.capacity() < m.len() {
                            return fail("shrink postcondition", step);
                        }
                    }
                    11 => {
                        what = format!("clear on {t}");
                        s.clear();
                        m.clear();
                    }
                    12 => {
                        let idx = if m.is_empty() { 0 } else { rng.below(m.len().min(64)) };
                        what = format!("insert_str({idx}) on {t}");
                        s.insert_str(idx, "<>");
                        m.insert_str(idx, "<>");
                    }
                    _ => {
                        if !m.is_empty() {
                            what = format!("remove(0) on {t}");
                            if s.remove(0) != m.remove(0) {
                                return fail("remove returned a different char", step);
                            }
                        }
                    }
                }
            }
        }
        for (k, e) in pool.iter().enumerate() {
            if let Some((s, m)) = e {
                if s.len() != m.len() || s.capacity() < s.len() || s.as_bytes() != m.as_bytes() {
                    return fail(&format!("after {what}: handle {k} has len {} (model {}), capacity {}", s.len(), m.len(), s.capacity()), step);
                }
            }
        }
    }
    0
}

/// Two threads, each with its own handle on one > 16 MiB buffer (on 32-bit targets the length is
/// stored inside the shared block): `truncate`/`pop` on such a handle must copy while the buffer is
/// shared, so they race with the other owner's drop / mutation unless the reference is held during
/// the copy. Run under Miri many-seeds on i686.
fn big32_conc() -> i32 {
    use lean_string::LeanString;
    const N: usize = (1 << 24) + 64;
    let model = "ab".repeat(N / 2);
    for variant in 0..4 {
        let a = LeanString::from(model.as_str());
        let b = a.clone();
        let m2 = model.clone();
        let t = std::thread::spawn(move || {
            let mut b = b;
            match variant {
                0 => drop(b),
                1 => {
                    assert_eq!(b.pop(), Some('b'));
                    assert!(b.len() == N - 1 && b.as_bytes() == &m2.as_bytes()[..N - 1]);
                }
                2 => {
                    b.truncate(N - 7);
                    b.push('!');
                    assert!(b.len() == N - 6 && b.as_bytes()[..N - 7] == m2.as_bytes()[..N - 7]);
                }
                _ => {
                    let c = b.clone();
                    drop(b);
                    assert!(c.as_bytes() == m2.as_bytes());
                }
            }
        });
        let mut a = a;
        a.truncate(N - 3);
        if a.len() != N - 3 || a.as_bytes() != &model.as_bytes()[..N - 3] {
            println!("VIOLATION-DETAIL {{\"invariant\":\"big32_conc_mismatch\",\"detail\":\"variant {variant}\"}}");
            return 1;
        }
        a.push_str("xy");
        t.join().unwrap();
        if a.len() != N - 1 || !a.as_bytes().ends_with(b"xy") {
            println!("VIOLATION-DETAIL {{\"invariant\":\"big32_conc_mismatch\",\"detail\":\"variant {variant} after join\"}}");
            return 1;
        }
    }
    println!("big32-conc ok");
    0
}

/// Allocation failure on the 32-bit "length inside the heap block" paths, where `truncate` / `pop`
/// on a *shared* buffer must copy and therefore can fail: the error must come back as `ReserveError`
/// with every handle and the reference count intact (Miri then sees no use after free and no leak).
/// Uses the crate's allocator seam with a minimal table: fail the next N requests, else forward.
#[cfg(feature = "failhooks")]
fn big32_fail() -> i32 {
    use lean_string::LeanString;
    use std::alloc::Layout;
    use std::sync::atomic::{AtomicUsize, Ordering::SeqCst};
    static FAIL_NEXT: AtomicUsize = AtomicUsize::new(0);
    static FAILED: AtomicUsize = AtomicUsize::new(0);
    fn refuse() -> bool {
        if FAIL_NEXT.load(SeqCst) > 0 {
            FAIL_NEXT.fetch_sub(1, SeqCst);
            FAILED.fetch_add(1, SeqCst);
            true
        } else {
            false
        }
    }
    unsafe fn a(l: Layout) -> *mut u8 {
        if refuse() { std::ptr::null_mut() } else { unsafe { std::alloc::alloc(l) } }
    }
    unsafe fn r(p: *mut u8, l: Layout, n: usize) -> *mut u8 {
        if refuse() { std::ptr::null_mut() } else { unsafe { std::alloc::realloc(p, l, n) } }
    }
    unsafe fn d(p: *mut u8, l: Layout) {
        unsafe { std::alloc::dealloc(p, l) }
    }
    static TABLE: lean_string::verif_hooks::AllocTable = lean_string::verif_hooks::AllocTable { alloc: a, realloc: r, dealloc: d };
    lean_string::verif_hooks::install(Some(&TABLE));
    const N: usize = (1 << 24) + 1000;
    let model = "ab".repeat(N / 2);
    let bad = |what: &str| -> i32 {
        println!("VIOLATION-DETAIL {{\"invariant\":\"big32_fail\",\"detail\":\"{what}\"}}");
        1
    };
    let a0 = LeanString::from(model.as_str());
    // every operation that has to copy a shared > 16 MiB buffer, with the copy refused
    for op in 0..6 {
        let mut b = a0.clone();
        FAIL_NEXT.store(1, SeqCst);
        let before = FAILED.load(SeqCst);
        let r = match op {
            0 => b.try_truncate(N - 10),
            1 => b.try_pop().map(|_| ()),
            2 => b.try_push('x'),
            3 => b.try_remove(0).map(|_| ()),
            4 => b.try_reserve(5000),
            _ => b.try_insert_str(3, "zz"),
        };
        let fired = FAILED.load(SeqCst) > before;
        FAIL_NEXT.store(0, SeqCst);
        // on 64-bit targets truncate/pop on a shared buffer never allocate: then they must succeed
        if fired {
            if r.is_ok() {
                return bad(&format!("op {op}: the copy was refused but the call reported success"));
            }
            if b.len() != N || b.as_bytes() != model.as_bytes() {
                return bad(&format!("op {op}: the failed call changed its target"));
            }
        }
        if a0.len() != N || a0.as_bytes() != model.as_bytes() {
            return bad(&format!("op {op}: the co-owner changed"));
        }
        // the failed handle is fully usable afterwards and is released normally
        b.push('!');
        if !b.as_bytes().ends_with(b"!") {
            return bad(&format!("op {op}: unusable after the failure"));
        }
        drop(b);
        if a0.as_bytes() != model.as_bytes() {
            return bad(&format!("op {op}: the co-owner changed after the other handle was dropped"));
        }
    }
    // unique long buffer: refused in-place growth and refused shrink across the limit
    let mut u = a0;
    FAIL_NEXT.store(1, SeqCst);
    if u.try_reserve(1 << 20).is_ok() {
        return bad("refused realloc reported success");
    }
    FAIL_NEXT.store(0, SeqCst);
    u.truncate((1 << 24) - 100);
    FAIL_NEXT.store(1, SeqCst);
    let r = u.try_shrink_to_fit();
    FAIL_NEXT.store(0, SeqCst);
    if r.is_ok() && u.capacity() != u.len() {
        return bad("shrink across the limit reported success without shrinking");
    }
    if u.as_bytes() != &model.as_bytes()[..(1 << 24) - 100] {
        return bad("text changed by a refused shrink");
    }
    u.shrink_to_fit();
    u.push_str("tail");
    drop(u);
    lean_string::verif_hooks::install(None);
    println!("big32-fail ok");
    0
}
