//! mirisim: the unhooked crate under Miri's seeded scheduler, weak-memory emulation and
//! happens-before data-race detector. One `-Zmiri-seed` is one exactly repeatable execution.
//!
//!   mirisim conc --seed N --from A --to B          programs A..B of the C04 generator, real threads
//!   mirisim conc-json '<program json>'             one explicit program (replay of a minimised one)
//!   mirisim hist --seed N --from A --to B --prop P [--faulting] [--steps K]
//!                                                  single-threaded histories of histsim's generator
//!
//! A violation found by the value oracles exits with status 1 after printing `VIOLATION-DETAIL`;
//! undefined behaviour, data races and leaks are reported by Miri itself.

#[path = "../../simcore/mod.rs"]
mod simcore;

use simcore::conc;
use std::sync::Arc;

fn arg<'a>(args: &'a [String], name: &str) -> Option<&'a str> {
    args.iter().position(|a| a == name).and_then(|i| args.get(i + 1)).map(|s| s.as_str())
}

fn run_conc(p: conc::Program, label: &str) -> i32 {
    println!("PROGRAM {label}");
    conc::reset_violation();
    let p = Arc::new(p);
    conc::execute(&p);
    if let Some(v) = conc::violation() {
        println!("VIOLATION-DETAIL {}", serde_json::to_string(&v).unwrap());
        println!("PROGRAM-JSON {}", serde_json::to_string(&*p).unwrap());
        return 1;
    }
    0
}

fn main() {
    let args: Vec<String> = std::env::args().skip(1).collect();
    if !args.iter().any(|a| a == "--verbose") {
        std::panic::set_hook(Box::new(|_| {}));
    }
    let code = match args.first().map(|s| s.as_str()) {
        Some("conc") => {
            let seed: u64 = arg(&args, "--seed").unwrap_or("20261003").parse().unwrap();
            let from: u64 = arg(&args, "--from").unwrap_or("0").parse().unwrap();
            let to: u64 = arg(&args, "--to").unwrap_or("1").parse().unwrap();
            let mut code = 0;
            for i in from..to {
                let p = conc::gen_program(seed, i, false);
                code = run_conc(p, &i.to_string());
                if code != 0 {
                    break;
                }
            }
            code
        }
        Some("conc-json") => {
            let p: conc::Program = serde_json::from_str(&args[1]).expect("program json");
            run_conc(p, "json")
        }
        Some("hist") => {
            let seed: u64 = arg(&args, "--seed").unwrap_or("20261003").parse().unwrap();
            let from: u64 = arg(&args, "--from").unwrap_or("0").parse().unwrap();
            let to: u64 = arg(&args, "--to").unwrap_or("1").parse().unwrap();
            let prop = arg(&args, "--prop").unwrap_or("C01").to_string();
            let workload = if args.iter().any(|a| a == "--faulting") { "histf" } else { "hist" };
            let mut code = 0;
            for i in from..to {
                println!("HISTORY {i}");
                let spec = simcore::work::WorkSpec {
                    workload: workload.to_string(),
                    prop: prop.clone(),
                    seed,
                    offset: i,
                    stride: 1,
                    limit: i + 1,
                    thorough: false,
                    want_digests: false,
                };
                let mut w = simcore::work::Worker::new(&spec);
                w.no_minimise = true;
                w.steps_cap = arg(&args, "--steps").map(|s| s.parse().unwrap());
                w.run(&mut |_| {});
                if let Some(f) = w.agg.found.first() {
                    println!("VIOLATION-DETAIL {}", serde_json::to_string(&f.violation).unwrap());
                    println!("REPLAY-JSON {}", serde_json::to_string(f).unwrap());
                    code = 1;
                    break;
                }
                if w.agg.cut_short_other > 0 {
                    println!("OTHER-PROPERTY-VIOLATION in history {i}: {:?}", w.agg.other_props);
                    code = 1;
                    break;
                }
            }
            code
        }
        _ => {
            eprintln!("usage: mirisim conc|conc-json|hist ...");
            2
        }
    };
    std::process::exit(code);
}
