"""Validation of the machinery itself.

  ./check selftest determinism [--seeds N]      every engine twice per seed, different worker counts
  ./check selftest reach                       probes and fault kinds that must be non-zero in the evidence files
  ./check selftest heap                        the shadow heap's own detectors, exercised by deliberate misuse
  ./check selftest mutant <dir> [--props C01,C02|all]
        <dir> holds patch.diff (+ optional demo.rs): apply to a scratch worktree of /repo (outside
        /repo and /verif), run the baseline tests and the demo, run the listed checks against it,
        print which ones raise a violation, remove the worktree and its build output.
"""
import json, os, shutil, subprocess, sys, time, hashlib

CHECK = os.path.join(os.path.dirname(os.path.abspath(__file__)), 'check')


def sh(cmd, cwd=None, env=None, timeout=None):
    p = subprocess.run(cmd, cwd=cwd, env=env, timeout=timeout, stdout=subprocess.PIPE, stderr=subprocess.STDOUT, text=True)
    return p.returncode, p.stdout


def scratch_tag(path):
    return '-' + hashlib.sha1(os.path.abspath(path).encode()).hexdigest()[:8]


def cleanup(c, wt):
    sh(['git', '-C', '/repo', 'worktree', 'remove', '--force', wt])
    shutil.rmtree(wt, ignore_errors=True)
    tag = scratch_tag(wt)
    for d in os.listdir(c.TARGET):
        if d.endswith(tag):
            shutil.rmtree(os.path.join(c.TARGET, d), ignore_errors=True)
    shutil.rmtree(os.path.join(c.SIM, 'scratch' + tag), ignore_errors=True)
    shutil.rmtree(os.path.join(c.OUT, 'scratch' + tag), ignore_errors=True)


def mutant(c, args):
    d = os.path.abspath(args[0])
    props = c.ALL_PROPS
    if '--props' in args:
        v = args[args.index('--props') + 1]
        props = c.ALL_PROPS if v == 'all' else v.split(',')
    keep_going = '--first' not in args
    name = os.path.basename(os.path.dirname(d)) + '_' + os.path.basename(d) if os.path.basename(d) in ('a', 'b', 'c') else os.path.basename(d)
    wt = f'/tmp/verif_mut_{name}_{os.getpid()}'
    env = dict(os.environ, CARGO_NET_OFFLINE='true')
    result = {'mutant': d, 'props': {}}
    rc, out = sh(['git', '-C', '/repo', 'worktree', 'add', '--detach', '-q', wt, 'HEAD'])
    if rc != 0:
        print(out)
        return 2
    try:
        demo = os.path.join(d, 'demo.rs')
        test_name = 'verif_demo'
        if os.path.exists(demo):
            shutil.copy(demo, os.path.join(wt, 'tests', test_name + '.rs'))
            extra = open(os.path.join(d, 'demo_flags.txt')).read().split() if os.path.exists(os.path.join(d, 'demo_flags.txt')) else []
            rc, out = sh(['cargo', 'test', '--offline', '--test', test_name] + extra, cwd=wt, env=env, timeout=1800)
            result['demo_on_clean'] = 'pass' if rc == 0 else 'FAIL'
        rc, out = sh(['git', 'apply', os.path.join(d, 'patch.diff')], cwd=wt)
        if rc != 0:
            print('patch does not apply:', out)
            result['error'] = 'patch does not apply'
            return 2
        if os.path.exists(demo):
            rc, out = sh(['cargo', 'test', '--offline', '--test', test_name] + extra, cwd=wt, env=env, timeout=1800)
            result['demo_with_change'] = 'pass' if rc == 0 else 'fail'
            os.remove(os.path.join(wt, 'tests', test_name + '.rs'))
        rc, out = sh(['cargo', 'test', '--workspace', '--no-fail-fast', '--offline'], cwd=wt, env=env, timeout=1800)
        result['baseline_tests'] = 'pass' if rc == 0 else 'FAIL'
        if rc != 0:
            result['baseline_output_tail'] = out[-1500:]
        rc, out = sh(['cargo', 'build', '--offline', '--no-default-features'], cwd=wt, env=env, timeout=1800)
        result['builds_no_default_features'] = rc == 0
        for p in props:
            t0 = time.time()
            rc, out = sh([CHECK, 'run', p], env=dict(os.environ, LEAN_STRING_SRC=wt), timeout=7200)
            lines = [l for l in out.splitlines() if l.startswith('  ')]
            result['props'][p] = {'exit': rc, 'wall_s': round(time.time() - t0, 1), 'violations': [l.strip()[:220] for l in lines[:6]]}
            print(f"  {p}: exit {rc} ({time.time() - t0:.0f}s) {lines[0].strip()[:160] if lines else ''}", flush=True)
            if rc == 1 and not keep_going:
                break
    finally:
        cleanup(c, wt)
    print(json.dumps(result, indent=1))
    outp = os.path.join(d, 'verif_result.json')
    try:
        json.dump(result, open(outp, 'w'), indent=1)
    except OSError:
        pass
    return 0


def determinism(c, args):
    """Each engine, same seed, twice, at different worker counts: identical per-run digests /
    violation sets / schedules. Run for several seeds."""
    n = int(args[args.index('--seeds') + 1]) if '--seeds' in args else 6
    c.gen_shadow()
    hb = c.build_hist()
    bad = 0
    sys.path.insert(0, os.path.dirname(CHECK))
    import check_c04
    sb = check_c04.build_sched(c)
    for k in range(n):
        seed = 1000 + 7919 * k
        outs = []
        for jobs in (1, 5, 16):
            od = os.path.join(c.OUT, f'det-{k}-{jobs}')
            shutil.rmtree(od, ignore_errors=True)
            cmd = [hb, 'batch', '--prop', 'C20', '--tier', 'quick', '--seed', str(seed), '--jobs', str(jobs), '--outdir', od,
                   '--replay-dir', os.path.join(od, 'replays'), '--digests', '--plan', 'hist:3000,histf:3000,c05sweep:200,c18sweep:200']
            rc, out = sh(cmd)
            s = json.load(open(os.path.join(od, 'summary.json')))
            outs.append((s['trace_digest'], s['sums']['evaluations'], s['distinct_relevant_fingerprints'], json.dumps(s['probes'], sort_keys=True), json.dumps(s['faults_fired'], sort_keys=True)))
            shutil.rmtree(od, ignore_errors=True)
        ok = all(o == outs[0] for o in outs)
        print(f'histsim seed {seed}: digests at 1/5/16 workers {"agree" if ok else "DIFFER"} {outs[0][0]} ({outs[0][1]} runs)')
        bad += 0 if ok else 1
        outs = []
        for jobs in (1, 7, 16):
            od = os.path.join(c.OUT, f'detS-{k}-{jobs}')
            shutil.rmtree(od, ignore_errors=True)
            rc, out = sh([sb, 'batch', '--tier', 'quick', '--seed', str(seed), '--jobs', str(jobs), '--outdir', od, '--replay-dir', os.path.join(od, 'replays'),
                          '--programs', '600', '--schedules', '60'])
            s = json.load(open(os.path.join(od, 'summary.json')))
            outs.append((s['sums']['executions'], s['sums']['scheduler_steps'], s['sums']['distinct_schedules'], s['distinct_nontrivial'], json.dumps(s['preemptions_by_point'], sort_keys=True)))
            shutil.rmtree(od, ignore_errors=True)
        ok = all(o == outs[0] for o in outs)
        print(f'schedsim seed {seed}: executions/steps/distinct schedules/preemptions at 1/7/16 workers {"agree" if ok else "DIFFER"} {outs[0][:4]}')
        bad += 0 if ok else 1
    print('determinism:', 'OK' if bad == 0 else f'{bad} DIFFERENCES')
    return 0 if bad == 0 else 1


def main(c, args):
    if not args:
        print(__doc__)
        return 2
    if args[0] == 'mutant':
        return mutant(c, args[1:])
    if args[0] == 'determinism':
        return determinism(c, args[1:])
    if args[0] == 'reach':
        return reach(c, args[1:])
    if args[0] == 'heap':
        c.gen_shadow()
        return subprocess.run([c.build_hist(), 'selfcheck']).returncode
    print(__doc__)
    return 2


EXPECTED_PROBES = {
    'C01': ['inline_to_heap', 'heap_to_inline', 'static_to_inline', 'static_to_heap', 'truncate_while_shared',
            'in_place_write_over_stale_bytes_after_shared_truncate', 'three_sharers_three_lengths', 'full_inline_constructed'],
    'C02': ['truncate_while_shared', 'in_place_write_over_stale_bytes_after_shared_truncate', 'clone_from_onto_last_owner'],
    'C03': ['alloc_failure_in_shared_copy_path', 'realloc_failure_seen', 'callback_panic_first', 'callback_panic_later', 'realloc_moved', 'realloc_in_place'],
    'C05': ['alloc_failure_in_shared_copy_path', 'realloc_failure_seen', 'refusal_swallowed_by_iterator_op'],
    'C09': ['full_inline_constructed', 'inline_edit_to_full'],
    'C10': ['static_still_borrowed_after_op', 'static_to_inline', 'static_to_heap'],
    'C11': ['append_within_heap_capacity'],
    'C12': ['growth_inline_to_heap', 'growth_static_to_heap', 'growth_heap_unique', 'growth_heap_shared', 'push_loop_growth_events'],
    'C13': ['shrink_shared_heap', 'shrink_heap_to_inline'],
    'C17': ['equal_text_different_representation'],
    'C18': ['callback_panic_first', 'callback_panic_later'],
}
EXPECTED_FAULTS = {
    'C03': ['F1_alloc_null', 'F2_realloc_null', 'F4_callback_panic', 'F5_bad_index_panic', 'F7_realloc_moved', 'F7_realloc_in_place'],
    'C05': ['F1_alloc_null', 'F2_realloc_null'],
    'C06': ['F3_refused_giant', 'F6_lying_size_hint_ops', 'giant_size_args'],
    'C07': ['F5_bad_index_panic'],
    'C18': ['F4_callback_panic'],
}


def reach(c, args):
    """Every "this rare condition was hit" probe and every fault kind a check relies on must have
    fired in the evidence of its last run; a zero means the workload mix has to change."""
    bad = 0
    for prop in sorted(set(EXPECTED_PROBES) | set(EXPECTED_FAULTS)):
        p = os.path.join(c.EVIDENCE, prop + '.json')
        if not os.path.exists(p):
            print(f'{prop}: no evidence file')
            bad += 1
            continue
        cov = json.load(open(p))['coverage']
        for name in EXPECTED_PROBES.get(prop, []):
            n = cov.get('probes_hit', {}).get(name, 0)
            if n == 0:
                bad += 1
            print(f"{'ok  ' if n else 'ZERO'} {prop} probe {name}: {n}")
        for name in EXPECTED_FAULTS.get(prop, []):
            n = cov.get('fault_kinds_fired', {}).get(name, 0)
            if n == 0:
                bad += 1
            print(f"{'ok  ' if n else 'ZERO'} {prop} fault {name}: {n}")
    pts = json.load(open(os.path.join(c.EVIDENCE, 'C04.json')))['coverage']['fault_kinds_fired']['F8_preemptions_by_scheduling_point']
    for k in ('load', 'fetch_add', 'fetch_sub', 'fence', 'alloc', 'realloc', 'dealloc', 'read'):
        n = pts.get(k, 0)
        if n == 0:
            bad += 1
        print(f"{'ok  ' if n else 'ZERO'} C04 preemptions at {k}: {n}")
    print('reach:', 'OK' if bad == 0 else f'{bad} probes or fault kinds never fired')
    return 0 if bad == 0 else 1
