#!/usr/bin/env python3
"""Writes MANIFEST.json (kept in a script so that the per-property texts stay in one place)."""
import json, os
HERE = os.path.dirname(os.path.abspath(__file__))

TECH_HIST = "deterministic simulation: seeded single-threaded history simulator (histsim) over the real crate with a fault-injecting shadow heap behind the allocator seam, String reference model, minimised replay files"
CHECKS = {
 'C01': ('exploration', "Seeded histories (fault-free and faulting batches) of every public constructor, clone, drop and mutator over a pool of handles; after each step every handle's text, length and the call's return value are compared with a std String model. Sampled, not enumerated: evidence that no history up to 40 (quick) / 120 (thorough) steps over 2-6 handles among those drawn separates LeanString from String.", '5 C01'),
 'C02': ('exploration', "Same simulator biased to sharing: before/after snapshots (bytes, length, pointer) of every handle that is not the target of a step, including steps that fail with ReserveError or panic; the shadow heap poisons freed and moves reallocated blocks so a write/realloc/free under another handle changes what it reads at once.", '5 C02'),
 'C03': ('exploration', "Shadow heap as oracle at the allocator boundary (double free, free/realloc with a different size or alignment, unknown pointer, damaged guard zone or poison) plus, after every step, block liveness per handle, reference count = live handles per block, no orphan block, and an empty heap when all handles are gone. Out-of-bounds reads are outside what a shadow heap sees: the thorough tier replays generated histories on the unhooked crate under Miri (x86_64 and i686). Both tiers also run directed and seeded random histories over strings longer than 2^24-2 bytes under Miri on i686, where the length lives in the heap block (the 32-bit branch no 64-bit run reaches), including refused copies.", '5 C03, 10.1'),
 'C05': ('fault_enumeration', "For each sampled history every alloc/realloc request the crate issues is failed in turn (and in pairs for small histories) and the history re-executed: Err/panic form, target unchanged (item-prefix for iterator ops), sharers untouched, reference counts and leak audit, remaining history fully checked; a refusal swallowed by a non-iterator operation is a violation. Complete over request positions within each sampled history, sampled over histories. Plus a directed Miri/i686 scenario refusing the copy of a shared >16 MiB buffer on the 32-bit-only paths.", '5 C05, 6'),
 'C06': ('exploration', "The size grid (powers of two ±2, the 56-bit boundary, isize::MAX, usize::MAX, each also minus len) is enumerated completely against 10 entry points in 13 prepared storage states under an allocator that refuses giant requests; random histories add arbitrary contexts. Checks Err/clean panic or documented postcondition, unchanged target and sharers, reference counts, capacity never larger than the block granted.", '5 C06'),
 'C07': ('exploration', "Every byte index 0..=len+2 of a catalogue of width-mixed texts in 13 storage states through insert/insert_str/remove/truncate and try_ forms, against String under catch_unwind: panics must coincide; a rejected call leaves text, length, capacity, pointer, storage class, reference count and allocator counters untouched; UTF-8 validity of every handle after every step of every run.", '5 C07'),
 'C08': ('exploration', "Allocator request counter across clone/clone_from/From<&LeanString>/to_lean_string, pointer identity for heap and static sources, inline copy for inline sources, equality; enumerated over lengths to 64 KiB, 13 storage states and up to 60 clones per buffer, plus random clone-heavy histories.", '5 C08'),
 'C09': ('exploration', "Allocator request counter, is_heap_allocated, inline pointer and capacity for every construction route x every length 0..=40 x final-byte classes, all integer types at digit-count boundaries, and inline edit histories hugging the 16-byte limit. The 8-byte (32-bit) clause is covered by generated histories interpreted by Miri on i686 (48 quick / 320 thorough; storage-class clauses only, no request counting there).", '5 C09, 10.1'),
 'C10': ('exploration', "Handles born from leaked writable 'static texts: no allocator request and pointer identity (while longer than 16 bytes) after from_static_str, clone, pop, truncate, clear; the arena is compared byte for byte with pristine copies after every step of every run.", '5 C10'),
 'C11': ('exploration', "capacity() >= len() for every handle after every step; postconditions of with_capacity and reserve (capacity, exclusive ownership); no allocator request and no move for appends/inserts within the reported capacity of an exclusively owned string; capacity never exceeds what the granted block can hold.", '5 C11'),
 'C12': ('exploration', "Every growth event in random histories must land in floor(1.5*len) <= capacity <= max(that, need); push-one-char loops up to 64 KiB (4 MiB thorough) from 6 start states count allocator requests (O(log n)) and bytes moved by realloc (O(n)).", '5 C12'),
 'C13': ('exploration', "Enumerated grid of length/capacity ratios x m x sharing situations x shrink_to/shrink_to_fit (plain and try_) plus random histories: text unchanged everywhere, capacity not larger than before (or inline size), not below len, not below min(m, old), exactly max(len, m) (or inline) for over-allocated heap strings, shared or not.", '5 C13'),
 'C17': ('exploration', "After every step all pairs of live handles (same text reached by different histories: inline fresh vs after pop, heap vs static vs inline, shared-truncated vs unique, over-allocated vs exact) and each handle against str/String/Cow in both argument orders: ==, cmp, partial_cmp, hash, Display/Debug, HashMap/BTreeMap lookup by &str.", '5 C17'),
 'C18': ('fault_enumeration', "For random and prepared-state cases the k-th invocation of the retain predicate / iterator next / Display piece panics, for every k: the String model is driven through the same panic, sharers must be untouched, the shadow heap must show no orphan block and must be empty at the end. Complete over panic positions within each sampled case, sampled over cases.", '5 C18'),
 'C20': ('exploration', "The same seeded histories are executed by six builds of the simulator ({default, no-default-features, all features} x {dev, release}); per-run trace digests must agree and all C01-C03 invariants hold in each; Option<LeanString> niche checked for every live handle after every step and for every possible final byte of a full inline string; sizes asserted at compile time; i686 (2 words = 8 bytes) histories under Miri.", '5 C20, 10.1'),
}

def main():
    checks = []
    for pid, (cat, text, ref) in CHECKS.items():
        checks.append({
            'property_id': pid,
            'quick_cmd': f'./check run {pid} --tier quick',
            'thorough_cmd': f'./check run {pid} --tier thorough',
            'evidence_file': f'evidence/{pid}.json',
            'replay_cmd_template': './check replay {path}',
            'engine': 'histsim+mirisim' if pid in ('C01', 'C03', 'C05', 'C09', 'C20') else 'histsim',
            'level_claimed': {'category': cat, 'text': text, 'design_ref': 'DESIGN.md §' + ref},
            'level_note': "Trusted: the harness (String model, shadow heap, generators), rustc/std, Miri where used; operations are atomic in this engine; seeded sampling, so a clean batch is evidence and not proof; x86_64 host (32-bit only under Miri's i686 target).",
            'technique': TECH_HIST,
        })
    extra = os.path.join(HERE, 'manifest_c04.json')
    na = [
        {'property_id': 'C14', 'reason': 'pure function of one integer value: no schedule, fault, history or second party for a simulator to vary; input enumeration/proof are other technique families'},
        {'property_id': 'C15', 'reason': 'pure function of one value (Display/ryu formatting): nothing for deterministic simulation to schedule or fail; not a simulation target'},
        {'property_id': 'C16', 'reason': 'UTF-8/UTF-16 decoding is a pure function of one input slice: no interleaving, clock or fault in it; answering with input generation would not be simulation'},
        {'property_id': 'C19', 'reason': 'serde/arbitrary glue is a pure function of its input and is compiled out of every simulated surface; no nondeterminism or fault to simulate'},
    ]
    if os.path.exists(extra):
        checks.append(json.load(open(extra)))
    else:
        na.append({'property_id': 'C04', 'reason': 'not claimed in this commit: the thread-schedule engines (schedsim, mirisim) are still under construction; see DESIGN.md §3.2-3.3'})
    checks.sort(key=lambda c: c['property_id'])
    m = {
        'version': 1,
        'setup_cmd': './check setup',
        'hooks': {
            'guard': 'cargo feature verif-hooks',
            'enable': "checks compile /repo/src through a generated shadow manifest (sim/shadow/*/Cargo.toml, [lib] path=/repo/src/lib.rs) with features = [\"verif-hooks\"]; the schedule simulator additionally emits cfg(loom) for that crate only and supplies its own crate named loom",
            'baseline_off_cmd': 'cd /repo && cargo test --workspace --no-fail-fast --offline',
            'source_commits': ['14159be'],
            'add_only': True,
        },
        'engines': [
            {'name': 'histsim', 'path': 'sim/histsim', 'serves_properties': sorted(CHECKS), 'kind_free_text': 'seeded single-threaded history simulator: handle pool, String model, fault-injecting shadow heap, grids, fault sweeps, minimiser, replay'},
        ],
        'checks': checks,
        'not_applicable': na,
        'notes': 'Six genuine defects were found and repaired by fix: commits in /repo (known_findings.json, all status fixed; DESIGN.md section 7; pre-fix demonstrations in findings/prefix/). 78 seeded breaking changes (seeded/) are all reported by some quick check, 12 behaviour-preserving refactorings (refactorings/) by none (DESIGN.md sections 10.4, 10.5). The mirisim tiers need the nightly toolchain with Miri (pre-installed); ./check setup builds its sysroots for x86_64 and i686 offline.',
    }
    engines_extra = os.path.join(HERE, 'manifest_engines_extra.json')
    if os.path.exists(engines_extra):
        m['engines'].extend(json.load(open(engines_extra)))
    json.dump(m, open(os.path.join(HERE, 'MANIFEST.json'), 'w'), indent=1)

if __name__ == '__main__':
    main()
